//! Kani/CBMC harnesses over the leaf kernels of adsb_deku.  `crc.rs` and `mode_ac.rs` are private modules of the
//! crate; they are compiled into this crate with #[path], i.e. the code CBMC sees is the file in /repo's working tree.
#![allow(dead_code, unused_imports)]
extern crate alloc;

#[path = "/repo/libadsb_deku/src/crc.rs"]
mod crc;
#[path = "/repo/libadsb_deku/src/mode_ac.rs"]
mod mode_ac;

/// Remainder of data(x) * x^24 modulo the Mode S generator 0x1FFF409, by bitwise long division.
fn bitwise_rem(data: &[u8]) -> u32 {
    let mut rem: u32 = 0;
    for byte in data {
        let mut bit = 8;
        while bit > 0 {
            bit -= 1;
            let b = ((*byte >> bit) & 1) as u32;
            let top = (rem >> 23) & 1;
            rem = (rem << 1) & 0x00ff_ffff;
            if (top ^ b) == 1 {
                rem ^= 0x00ff_f409;
            }
        }
    }
    rem
}

#[cfg(kani)]
mod proofs {
    use super::*;

    /// C03 lemma 1: every table entry is the remainder of its index times x^24.
    #[kani::proof]
    #[kani::unwind(10)]
    fn crc_table_is_remainder() {
        let b: u8 = kani::any();
        assert_eq!(crc::CRC_TABLE[b as usize], bitwise_rem(&[b]));
        kani::cover!(b == 0xff);
    }

    /// C03 lemma 2 (56 bit): modes_checksum == long division of the first 4 bytes, XOR the last 3.
    #[kani::proof]
    #[kani::unwind(10)]
    fn checksum_equals_division_56() {
        let m: [u8; 7] = kani::any();
        let want = bitwise_rem(&m[..4]) ^ ((m[4] as u32) << 16 | (m[5] as u32) << 8 | m[6] as u32);
        match crc::modes_checksum(&m, 56) {
            Ok(c) => assert_eq!(c, want),
            Err(_) => panic!("7-byte frame rejected"),
        }
        kani::cover!(want == 0);
    }

    /// C03 lemma 2 (112 bit).
    #[kani::proof]
    #[kani::unwind(13)]
    fn checksum_equals_division_112() {
        let m: [u8; 14] = kani::any();
        let want = bitwise_rem(&m[..11]) ^ ((m[11] as u32) << 16 | (m[12] as u32) << 8 | m[13] as u32);
        match crc::modes_checksum(&m, 112) {
            Ok(c) => assert_eq!(c, want),
            Err(_) => panic!("14-byte frame rejected"),
        }
        kani::cover!(want == 0);
    }

    /// C02/C03: the checksum refuses exactly when fewer than bits/8 bytes are available (all lengths 0..=32),
    /// and never panics.
    #[kani::proof]
    #[kani::unwind(34)]
    fn checksum_length_guard() {
        let buf: [u8; 32] = kani::any();
        let len: usize = kani::any();
        kani::assume(len <= 32);
        let long: bool = kani::any();
        let bits = if long { 112 } else { 56 };
        let r = crc::modes_checksum(&buf[..len], bits);
        assert_eq!(r.is_err(), len < bits / 8);
        kani::cover!(r.is_ok() && len == 32);
        kani::cover!(r.is_err() && len == 13);
    }

    /// C03 lemma 5: the table is XOR-linear (with lemma 1 this makes every checksum step linear).
    #[kani::proof]
    fn crc_table_linear() {
        let a: u8 = kani::any();
        let b: u8 = kani::any();
        assert_eq!(crc::CRC_TABLE[(a ^ b) as usize], crc::CRC_TABLE[a as usize] ^ crc::CRC_TABLE[b as usize]);
        kani::cover!(a != b);
    }

    /// C06/C09 leaf: the Gillham decoder and the de-interleaver never panic and the Gillham result is below 1268.
    #[kani::proof]
    fn gillham_total() {
        let code: u32 = kani::any();
        kani::assume(code < 0x2000);
        let g = mode_ac::decode_id13_field(code);
        assert!(g & 0xffff_8888 == 0);
        if let Ok(n) = mode_ac::mode_a_to_mode_c(g) {
            assert!(n <= 1267);
            kani::cover!(n == 1267);
        }
    }

    /// C04: the textual form of an address is six lower-case hex digits and parses back to the same address.
    #[kani::proof]
    #[kani::unwind(8)]
    fn icao_text_round_trip() {
        use core::str::FromStr;
        let a: [u8; 3] = kani::any();
        let hex = b"0123456789abcdef";
        let txt = [
            hex[(a[0] >> 4) as usize], hex[(a[0] & 15) as usize], hex[(a[1] >> 4) as usize],
            hex[(a[1] & 15) as usize], hex[(a[2] >> 4) as usize], hex[(a[2] & 15) as usize],
        ];
        let s = core::str::from_utf8(&txt).unwrap();
        let back = adsb_deku::ICAO::from_str(s);
        match back {
            Ok(i) => assert_eq!(i.0, a),
            Err(_) => panic!("six hex digits rejected"),
        }
        kani::cover!(a[0] == 0xff);
    }
}
