#!/bin/sh
# Offline setup: nothing is fetched.  Warms the build caches the checks use (dependency builds for the MIR dump,
# the native replay driver in dev and release profile).  Everything is rebuilt from /repo's working tree by the
# checks themselves; this only saves the first check from paying for the dependency builds.
set -e
cd "$(dirname "$0")"
export CARGO_NET_OFFLINE=true
mkdir -p .cache evidence out
python3-vt - <<'PY'
import sys
sys.path.insert(0, '.')
import z3
print('z3', z3.get_version_string())
from mirsym import loader, validate
for feat in ('std', 'alloc'):
    for c in ('adsb_deku', 'rsadsb_common'):
        t, dt = loader.dump_mir(c, feat)
        print('MIR dump %s [%s]: %d lines in %.1fs' % (c, feat, t.count('\n'), dt))
print('replay (debug):', validate.build_replay('debug'))
print('replay (release):', validate.build_replay('release'))
from checks import step_replay
print('step replay:', step_replay.build())
from checks import c20
print('two-configuration replay:', c20.cfg_exe('std'), c20.cfg_exe('alloc'))
PY
echo setup done
