#!/bin/sh
# Offline setup: nothing to fetch. Warm the dependency build caches used by the checks.
set -e
cd "$(dirname "$0")"
mkdir -p .cache evidence out
python3-vt -c "import z3; print('z3', z3.get_version_string())"
exit 0
