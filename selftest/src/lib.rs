//! Functions exercising the std/core API surface that mirsym models with builtins.  Each has the signature
//! (u32, u32) -> u64; `mirsym/selftest.py` runs them natively and symbolically and compares (DESIGN §1.1).
#![allow(clippy::all)]

fn bytes(x: u32, y: u32) -> [u8; 8] {
    let a = x.to_be_bytes();
    let b = y.to_le_bytes();
    [a[0], a[1], a[2], a[3], b[0], b[1], b[2], b[3]]
}

pub fn t_fold(x: u32, y: u32) -> u64 {
    let a = bytes(x, y);
    a.iter().fold(0u64, |acc, b| (acc << 3) ^ u64::from(*b))
}

pub fn t_skip_while_take(x: u32, y: u32) -> u64 {
    let a = bytes(x, y);
    a.iter().skip_while(|b| **b == 0).take(3).fold(1u64, |acc, b| acc * 257 + u64::from(*b))
}

pub fn t_filter_count(x: u32, y: u32) -> u64 {
    let a = bytes(x, y);
    a.iter().filter(|b| **b & 1 == 1).count() as u64
}

pub fn t_map_sum(x: u32, y: u32) -> u64 {
    let a = bytes(x, y);
    a.iter().map(|b| u32::from(*b) * 3).sum::<u32>() as u64
}

pub fn t_sum_overflow(x: u32, y: u32) -> u64 {
    let a = [x, y, 7];
    a.iter().sum::<u32>() as u64
}

pub fn t_zip(x: u32, y: u32) -> u64 {
    let a = x.to_be_bytes();
    let b = y.to_be_bytes();
    a.iter().zip(b.iter()).map(|(p, q)| u64::from(p ^ q)).fold(0, |acc, v| acc * 256 + v)
}

pub fn t_rev_enumerate(x: u32, y: u32) -> u64 {
    let a = bytes(x, y);
    let mut r = 0u64;
    for (i, b) in a.iter().rev().enumerate() {
        r += (i as u64 + 1) * u64::from(*b);
    }
    r
}

pub fn t_chain_copied(x: u32, y: u32) -> u64 {
    let a = x.to_be_bytes();
    let b = y.to_be_bytes();
    a.iter().copied().chain(b.iter().copied()).skip(2).step_by(2).fold(0u64, |acc, v| acc * 251 + u64::from(v))
}

pub fn t_any_all(x: u32, y: u32) -> u64 {
    let a = bytes(x, y);
    let any = a.iter().any(|b| *b == 0xff);
    let all = a.iter().all(|b| *b < 0x80);
    u64::from(any) * 2 + u64::from(all)
}

pub fn t_position_find(x: u32, y: u32) -> u64 {
    let a = bytes(x, y);
    let p = a.iter().position(|b| *b == 0).map_or(99, |p| p as u64);
    let f = a.iter().find(|b| **b > 0x7f).map_or(0, |b| u64::from(*b));
    p * 1000 + f
}

pub fn t_min_max(x: u32, y: u32) -> u64 {
    let a = bytes(x, y);
    let mx = a.iter().copied().max().unwrap();
    let mn = a.iter().copied().min().unwrap();
    u64::from(mx) * 256 + u64::from(mn)
}

pub fn t_filter_map_collect(x: u32, y: u32) -> u64 {
    let a = bytes(x, y);
    let v: Vec<u16> = a.iter().filter_map(|b| if *b % 3 == 0 { Some(u16::from(*b) + 1) } else { None }).collect();
    v.len() as u64 * 100_000 + v.iter().map(|e| u64::from(*e)).sum::<u64>()
}

pub fn t_range_loops(x: u32, y: u32) -> u64 {
    let mut r = 0u64;
    for i in 0..=7 {
        r = r * 3 + u64::from((x >> (i * 4)) & 0xf);
    }
    for i in (0..4).rev() {
        r ^= u64::from((y >> (i * 8)) & 0xff) << i;
    }
    r
}

pub fn t_take_while_last(x: u32, y: u32) -> u64 {
    let a = bytes(x, y);
    a.iter().take_while(|b| **b != 0x20).last().map_or(7777, |b| u64::from(*b))
}

pub fn t_option_combinators(x: u32, y: u32) -> u64 {
    let a = x.checked_sub(1001).and_then(|v| u16::try_from(v + 1).ok());
    let b = y.checked_mul(3).filter(|v| v % 2 == 0).unwrap_or_else(|| 5);
    let c = a.map(|v| u64::from(v) + 1).unwrap_or_default();
    let d = a.or(Some(9)).map_or(0, u64::from);
    let e = a.ok_or(3u8).map_err(|e| e + 1).unwrap_or(0);
    c * 1_000_000 + u64::from(b % 1000) * 1000 + d % 1000 + u64::from(e)
}

pub fn t_option_misc(x: u32, y: u32) -> u64 {
    let mut o = if x & 1 == 1 { Some(x) } else { None };
    let t = o.take();
    let was = o.is_none();
    let mut p = Some(y);
    let old = p.replace(4);
    let ins = *o.get_or_insert(17);
    let z = t.zip(old).map_or(1, |(a, b)| u64::from(a ^ b));
    let xo = t.xor(p).is_some();
    z * 8 + u64::from(was) * 4 + u64::from(xo) * 2 + u64::from(ins == 17) + u64::from(t.is_some_and(|v| v > 100)) * 1024
}

pub fn t_result_combinators(x: u32, y: u32) -> u64 {
    let r: Result<u8, u32> = u8::try_from(x).map_err(|_| x);
    let a = r.map(|v| u64::from(v) * 2).unwrap_or_else(|e| u64::from(e) + 1);
    let s: Result<u16, ()> = u16::try_from(y).map_err(|_| ());
    let b = s.ok().map_or(0, u64::from);
    let c = r.and_then(|v| v.checked_add(200).ok_or(0)).is_ok();
    let d = s.is_err();
    a * 4 + b * 1_000_000_000 + u64::from(c) * 2 + u64::from(d)
}

pub fn t_int_methods(x: u32, y: u32) -> u64 {
    let a = x.saturating_sub(y);
    let b = x.wrapping_add(y);
    let c = x.rotate_left(y & 31);
    let d = x.count_ones() + y.leading_zeros() + x.trailing_zeros();
    let e = (x as i32).wrapping_abs() as u32;
    let f = x.abs_diff(y);
    let g = x.min(y) ^ x.max(y);
    let h = u32::from_be_bytes(y.to_le_bytes());
    let i = x.swap_bytes() ^ y.reverse_bits();
    u64::from(a ^ b ^ c ^ e ^ f ^ g ^ h ^ i) * 128 + u64::from(d)
}

pub fn t_int_pow_div(x: u32, y: u32) -> u64 {
    let a = (x & 0xff).pow(3);
    let b = x / ((y & 0xf) + 1);
    let c = x % ((y & 0xff) | 1);
    let d = x.checked_div(y & 3).unwrap_or(11);
    let e = ((x as i32) >> 3) as u32;
    let f = (x as i32).rem_euclid(7) as u32 + (y as i32).div_euclid(9).unsigned_abs();
    u64::from(a) + u64::from(b) * 3 + u64::from(c) * 5 + u64::from(d) * 7 + u64::from(e) * 11 + u64::from(f)
}

pub fn t_overflow_panic(x: u32, y: u32) -> u64 {
    let a = x + y;
    let b = (x as u8 as i8) - 100;
    u64::from(a) + b as u64
}

pub fn t_index_panic(x: u32, y: u32) -> u64 {
    let a = bytes(x, y);
    let i = (x % 10) as usize;
    u64::from(a[i]) + u64::from(a[(y & 7) as usize])
}

pub fn t_vec_ops(x: u32, y: u32) -> u64 {
    let mut v = vec![1u32, 2, 3];
    v.push(x);
    v.extend_from_slice(&[y, 5]);
    v.insert(1, 42);
    let r = v.remove(0);
    let p = v.pop().unwrap_or(0);
    v.truncate(4);
    let c = v.contains(&3);
    let f = *v.first().unwrap();
    let l = *v.last().unwrap();
    v.swap(0, 1);
    v.reverse();
    let mut w = v.clone();
    w.retain(|e| e % 2 == 0);
    w.dedup();
    u64::from(r) + u64::from(p) * 3 + u64::from(c) * 7 + u64::from(f) * 11 + u64::from(l) * 13 + v.len() as u64 * 17
        + u64::from(v[0]) * 19 + w.len() as u64 * 23 + u64::from(v.is_empty())
}

pub fn t_slice_ops(x: u32, y: u32) -> u64 {
    let a = bytes(x, y);
    let (l, r) = a.split_at(3);
    let s = &a[2..6];
    let g = a.get(9).copied().unwrap_or(1);
    let h = a.get((x & 7) as usize).copied().unwrap_or(2);
    let st = a.starts_with(&[0, 0]);
    let w: u64 = a.windows(2).map(|w| u64::from(w[0] ^ w[1])).sum();
    let c: u64 = a.chunks(3).map(|c| c.len() as u64 * u64::from(c[0])).sum();
    let t = s.to_vec();
    let ls = l.split_first().map_or(0, |(f, rest)| u64::from(*f) + rest.len() as u64);
    let rl = r.split_last().map_or(0, |(f, rest)| u64::from(*f) + rest.len() as u64);
    u64::from(l[0]) + u64::from(r[0]) * 3 + u64::from(g) * 5 + u64::from(h) * 7 + u64::from(st) * 11 + w * 13 + c * 17
        + t.len() as u64 + ls * 19 + rl * 23 + u64::from(a.concat_check())
}

trait ConcatCheck {
    fn concat_check(&self) -> u8;
}
impl ConcatCheck for [u8; 8] {
    fn concat_check(&self) -> u8 {
        let v = [&self[..2], &self[6..]].concat();
        v.iter().fold(0u8, |a, b| a.wrapping_add(*b))
    }
}

pub fn t_sort_dedup(x: u32, y: u32) -> u64 {
    let mut v = vec![x & 0xff, y & 0xff, 7, (x >> 8) & 0xff];
    v.sort_unstable();
    v.dedup();
    v.iter().fold(0u64, |a, e| a * 257 + u64::from(*e)) + v.len() as u64
}

pub fn t_mem(x: u32, y: u32) -> u64 {
    let mut a = x;
    let mut b = y;
    core::mem::swap(&mut a, &mut b);
    let old = core::mem::replace(&mut a, 3);
    let t = core::mem::take(&mut b);
    u64::from(old) * 2 + u64::from(t) * 3 + u64::from(a) + u64::from(b)
}

pub fn t_string(x: u32, y: u32) -> u64 {
    let mut s = String::new();
    s.push_str("ab");
    s.push(char::from(b'A' + (x % 26) as u8));
    let t = format!("{s}-{:08x}", y);
    let n = t.len() as u64;
    let h = t.chars().fold(0u64, |a, c| a.wrapping_mul(31).wrapping_add(c as u64));
    let u = t.trim_start_matches('a');
    let e = s.is_empty();
    let eq = s == "abA";
    n + h * 64 + u.len() as u64 * 3 + u64::from(e) + u64::from(eq) * 5 + u64::from(t.starts_with("abB")) * 7
}

pub fn t_bool_cmp(x: u32, y: u32) -> u64 {
    let o = x.cmp(&y);
    let a = match o {
        core::cmp::Ordering::Less => 1,
        core::cmp::Ordering::Equal => 2,
        core::cmp::Ordering::Greater => 3,
    };
    let b = (x as i32).partial_cmp(&(y as i32)).map_or(0, |o| o as i8 as i64 + 2) as u64;
    let c = (x, y) < (y, x);
    let d = x.clamp(10, 1000);
    let e = (x as i32).signum() + 1;
    a + b * 4 + u64::from(c) * 16 + u64::from(d) * 32 + e as u64
}

pub fn t_float_mod(x: u32, y: u32) -> u64 {
    // `%` on integral operands (the encoder's documented side condition, discharged separately in C05)
    let a = f64::from(x);
    let b = f64::from(y & 0xffff) + 1.0;
    let c = (a % b).floor();
    let d = ((-a) % b + 0.5).floor();
    (c as u64) ^ ((d as i64 as u64) << 20)
}

pub fn t_float_round(x: u32, y: u32) -> u64 {
    let a = f64::from(x) / 8.0;
    let b = f64::from(y & 0xffff) + 0.5;
    let d = (a - b).abs().round();
    let e = a.max(b).min(1e9).ceil();
    let t = (b - a / 3.0).trunc();
    (d as u64) ^ ((e as u64) << 8) ^ ((t as i64 as u64) << 3)
}

pub fn t_float_cast(x: u32, y: u32) -> u64 {
    let f = (f64::from(x & 0xff) * 1.5) as u8;
    let b = f64::from(y & 0xffff) + 0.5;
    let g = (-(b as f32)).trunc() as i32;
    let h = (f64::from(x) * 3.0e9) as u32;
    let i = (f64::from(y) - 5.0e9) as i32;
    let j = (f64::from(x) / 7.0) as f32 as f64;
    u64::from(f) ^ ((g as u32 as u64) << 4) ^ (u64::from(h) << 8) ^ ((i as u32 as u64) << 16) ^ ((j * 16.0) as u64)
}

pub fn t_float_misc(x: u32, y: u32) -> u64 {
    let a = f64::from(x) / 8.0;
    let b = f64::from(y & 0xffff) + 0.5;
    let h = (a * 2.0 + b).sqrt().floor();
    let s = if a < b { 1 } else { 0 } + if a.is_nan() { 2 } else { 0 } + (b.signum() as i32);
    let r = a.to_radians().to_degrees();
    let c = a.clamp(3.0, 1e6);
    let p = b.powi(2);
    (h as u64) ^ ((s as u64) << 40) ^ (((r - a).abs() < 1e-6) as u64) << 50 ^ ((c as u64) << 8) ^ ((p as u64) << 3)
}

pub fn t_matches_let_else(x: u32, y: u32) -> u64 {
    let o = if y > 5 { Some((x, y)) } else { None };
    let Some((a, b)) = o else { return 1 };
    let m = matches!(a, 0..=9 | 100);
    let n = if let (Some(p), 3..=8) = (a.checked_sub(b), b) { p } else { 2 };
    u64::from(m) + u64::from(n) * 2
}

pub fn t_array_ops(x: u32, y: u32) -> u64 {
    let a = bytes(x, y);
    let b = a.map(|v| u16::from(v) + 1);
    let mut c = [0u16; 8];
    c.copy_from_slice(&b);
    c[2..4].fill(9);
    let eq = a == bytes(y, x);
    let contains = c.contains(&9);
    let it: u64 = c.into_iter().map(u64::from).sum();
    it + u64::from(eq) * 3 + u64::from(contains) * 5 + a.len() as u64
}

pub fn t_iter_nested_closure_state(x: u32, y: u32) -> u64 {
    let a = bytes(x, y);
    let mut seen = 0u32;
    let mut total = 0u64;
    a.iter().for_each(|b| {
        if *b > 0x40 {
            seen += 1;
        }
        total = total.wrapping_mul(31).wrapping_add(u64::from(*b));
    });
    total ^ u64::from(seen) << 60
}

fn opt_helper(x: u32, y: u32) -> Option<u32> {
    let a = x.checked_sub(5)?;
    let b = y.checked_add(a)?;
    Some(a ^ b)
}

fn res_helper(x: u32) -> Result<u8, u32> {
    let v = u8::try_from(x).map_err(|_| x)?;
    Ok(v / 2)
}

pub fn t_question_mark(x: u32, y: u32) -> u64 {
    opt_helper(x, y).map_or(7, u64::from) * 3 + res_helper(y).map_or_else(|e| u64::from(e) + 1000, u64::from)
}

pub fn t_btreemap(x: u32, y: u32) -> u64 {
    use std::collections::BTreeMap;
    let mut m: BTreeMap<u8, u32> = BTreeMap::new();
    *m.entry((x & 3) as u8).or_default() += 1;
    *m.entry((y & 3) as u8).or_default() += 10;
    m.entry(2).and_modify(|v| *v += 100).or_insert(1000);
    let old = m.insert(7, x & 0xff);
    let had = m.contains_key(&3);
    let g = m.get(&0).copied().unwrap_or(55);
    let r = m.remove(&1).unwrap_or(66);
    let s: u32 = m.values().sum();
    if let Some(v) = m.get_mut(&2) {
        *v += 1;
    }
    m.retain(|k, _| *k != 0);
    u64::from(s) + u64::from(g) * 10_000 + u64::from(r) * 100_000_000 + m.len() as u64 * 3 + u64::from(had) + u64::from(old.is_some()) * 2
        + u64::from(m[&2]) * 7
}

pub fn t_try_iter(x: u32, y: u32) -> u64 {
    let a = bytes(x, y);
    let r: Result<(), u8> = a.iter().try_for_each(|b| if *b == 0x20 { Err(*b) } else { Ok(()) });
    let s: Option<u32> = a.iter().try_fold(0u32, |acc, b| acc.checked_add(u32::from(*b) << 22));
    let m: u64 = a.iter().map_while(|b| b.checked_sub(16)).map(u64::from).sum();
    let t = (x > y).then_some(x - y.min(x)).unwrap_or(3);
    let u = (y & 1 == 1).then(|| y / 3).map_or(9, u64::from);
    u64::from(r.is_err()) + u64::from(s.unwrap_or(77)) * 2 + m * 1_000_000_000_000 + u64::from(t % 1000) * 5 + u
}

pub fn t_collect_try(x: u32, y: u32) -> u64 {
    let a = bytes(x, y);
    let r: Result<Vec<u8>, u32> = a.iter().map(|b| if *b == 0xee { Err(u32::from(*b)) } else { Ok(*b >> 1) }).collect();
    let o: Option<Vec<u8>> = a.iter().map(|b| b.checked_sub(3)).collect();
    let s: Result<String, ()> = a.iter().map(|b| if *b < 0x80 { Ok(char::from(b'a' + (*b % 26))) } else { Err(()) }).collect();
    let rs = r.map_or_else(u64::from, |v| v.iter().map(|e| u64::from(*e)).sum());
    let os = o.map_or(5, |v| v.len() as u64 + u64::from(v[0]));
    let ss = s.map_or(9, |t| t.len() as u64 * 7 + t.chars().map(|c| c as u64).sum::<u64>());
    rs + os * 10_000 + ss * 100_000_000
}

pub const NAMES: &[(&str, fn(u32, u32) -> u64)] = &[
    ("t_fold", t_fold),
    ("t_skip_while_take", t_skip_while_take),
    ("t_filter_count", t_filter_count),
    ("t_map_sum", t_map_sum),
    ("t_sum_overflow", t_sum_overflow),
    ("t_zip", t_zip),
    ("t_rev_enumerate", t_rev_enumerate),
    ("t_chain_copied", t_chain_copied),
    ("t_any_all", t_any_all),
    ("t_position_find", t_position_find),
    ("t_min_max", t_min_max),
    ("t_filter_map_collect", t_filter_map_collect),
    ("t_range_loops", t_range_loops),
    ("t_take_while_last", t_take_while_last),
    ("t_option_combinators", t_option_combinators),
    ("t_option_misc", t_option_misc),
    ("t_result_combinators", t_result_combinators),
    ("t_int_methods", t_int_methods),
    ("t_int_pow_div", t_int_pow_div),
    ("t_overflow_panic", t_overflow_panic),
    ("t_index_panic", t_index_panic),
    ("t_vec_ops", t_vec_ops),
    ("t_slice_ops", t_slice_ops),
    ("t_sort_dedup", t_sort_dedup),
    ("t_mem", t_mem),
    ("t_string", t_string),
    ("t_bool_cmp", t_bool_cmp),
    ("t_float_mod", t_float_mod),
    ("t_float_round", t_float_round),
    ("t_float_cast", t_float_cast),
    ("t_float_misc", t_float_misc),
    ("t_matches_let_else", t_matches_let_else),
    ("t_array_ops", t_array_ops),
    ("t_iter_nested_closure_state", t_iter_nested_closure_state),
    ("t_question_mark", t_question_mark),
    ("t_btreemap", t_btreemap),
    ("t_try_iter", t_try_iter),
    ("t_collect_try", t_collect_try),
];
