use std::panic;

fn main() {
    panic::set_hook(Box::new(|_| {}));
    let inputs: Vec<(u32, u32)> = std::env::args()
        .skip(1)
        .map(|a| {
            let (x, y) = a.split_once(',').unwrap();
            (x.parse().unwrap(), y.parse().unwrap())
        })
        .collect();
    for (name, f) in selftest::NAMES {
        for (x, y) in &inputs {
            let (x, y) = (*x, *y);
            match panic::catch_unwind(move || f(x, y)) {
                Ok(v) => println!("{name} {x} {y} {v}"),
                Err(_) => println!("{name} {x} {y} PANIC"),
            }
        }
    }
}
