//! Native replay for check C20 (alloc-only build = std build): the same requests are answered by this driver
//! built in both feature configurations of the library crates and the answers are compared by checks/c20.py.
//!   decode <hex>                          -> {"ok", "debug", "display"} | {"ok":false,"err"} | {"panic":true}
//!   cpr <e|o> <lat> <lon> <e|o> <lat> <lon>  -> {"some", "lat_bits", "lon_bits"}
//!   step <file.json>                      -> {"added", "post"} (one Airplanes::action on a serde-JSON pre-state)
//!   seq <hex1> <hex2>                     -> decode of hex2 after a decode of hex1 in the same thread (C19 purity)
use std::io::{BufRead, Write};
use std::panic;

use adsb_deku::adsb::ME;
use adsb_deku::cpr::get_position;
use adsb_deku::{Altitude, CPRFormat, Frame};
use rsadsb_common::Airplanes;
use serde::Deserialize;
use serde_json::{json, Value};

fn unhex(h: &str) -> Vec<u8> {
    (0..h.len() / 2).map(|i| u8::from_str_radix(&h[2 * i..2 * i + 2], 16).unwrap_or(0)).collect()
}

fn decode(rest: &str) -> Value {
    let bytes = unhex(rest.trim());
    match panic::catch_unwind(|| match Frame::from_bytes(&bytes) {
        Ok(f) => json!({"ok": true, "debug": format!("{f:?}"), "display": format!("{f}")}),
        Err(e) => json!({"ok": false, "err": format!("{e:?}").split('(').next().unwrap_or("").to_string()}),
    }) {
        Ok(v) => v,
        Err(_) => json!({"panic": true}),
    }
}

fn cpr(rest: &str) -> Value {
    let p: Vec<&str> = rest.split_whitespace().collect();
    if p.len() != 6 {
        return json!({"error": "cpr needs 6 arguments"});
    }
    let mk = |par: &str, lat: &str, lon: &str| Altitude {
        odd_flag: if par == "o" { CPRFormat::Odd } else { CPRFormat::Even },
        lat_cpr: lat.parse().unwrap_or(0),
        lon_cpr: lon.parse().unwrap_or(0),
        ..Altitude::default()
    };
    let a = mk(p[0], p[1], p[2]);
    let b = mk(p[3], p[4], p[5]);
    match panic::catch_unwind(|| get_position((&a, &b))) {
        Ok(Some(pos)) => json!({"some": true, "lat_bits": pos.latitude.to_bits(), "lon_bits": pos.longitude.to_bits(),
                                "lat": pos.latitude, "lon": pos.longitude}),
        Ok(None) => json!({"some": false}),
        Err(_) => json!({"panic": true}),
    }
}

#[derive(Deserialize)]
struct Step {
    pre: Airplanes,
    frame: Frame,
    recv: (f64, f64),
    max_range: f64,
}

fn step(rest: &str) -> Value {
    let text = match std::fs::read_to_string(rest.trim()) {
        Ok(t) => t,
        Err(e) => return json!({"error": format!("{e}")}),
    };
    let s: Step = match serde_json::from_str(&text) {
        Ok(s) => s,
        Err(e) => return json!({"error": format!("input does not deserialize: {e}")}),
    };
    let Step { pre, frame, recv, max_range } = s;
    let mut planes = pre;
    // the velocity the tracker will see (calculate() is part of what C20 compares)
    let calc = match &frame.df {
        adsb_deku::DF::ADSB(a) => match &a.me {
            ME::AirborneVelocity(v) => v.calculate().map(|(h, s, r)| json!([h.to_bits(), s.to_bits(), r])),
            _ => None,
        },
        _ => None,
    };
    match panic::catch_unwind(panic::AssertUnwindSafe(|| {
        let added = planes.action(frame, recv, max_range);
        format!("{added:?}")
    })) {
        Ok(added) => json!({"added": added, "calculate": calc, "post": serde_json::to_value(&planes).unwrap_or(json!(null))}),
        Err(_) => json!({"panic": true}),
    }
}

fn main() {
    panic::set_hook(Box::new(|_| {}));
    let stdin = std::io::stdin();
    let stdout = std::io::stdout();
    let mut out = stdout.lock();
    for line in stdin.lock().lines() {
        let line = line.unwrap();
        let line = line.trim();
        if line.is_empty() {
            continue;
        }
        let (cmd, rest) = line.split_once(' ').unwrap_or((line, ""));
        let resp = match cmd {
            "decode" => decode(rest),
            "cpr" => cpr(rest),
            "step" => step(rest),
            "seq" => {
                // decode the first buffer (result ignored), then the second one, in the same thread: purity (C19)
                let (a, b) = rest.split_once(' ').unwrap_or((rest, ""));
                let _ = decode(a);
                decode(b)
            }
            "config" => json!({"std": cfg!(feature = "std")}),
            _ => json!({"error": "unknown command"}),
        };
        writeln!(out, "{resp}").unwrap();
    }
}
