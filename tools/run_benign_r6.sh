#!/bin/sh
# third set of behaviour-preserving refactorings written by a sub-agent (seeded/benign/p01..p10), aimed at the places
# where checks were extended late (reader plumbing, purity, prune, listing, ICAO rendering)
cd /verif
run() { sh tools/run_benign.sh "$@" >> .cache/logs/benign_r6.txt 2>&1; }
: > .cache/logs/benign_r6.txt
run p01 C19 C03 C02
run p02 C19 C03
run p03 C03 C02
run p04 C05 C20
run p05 C15
run p06 C14
run p07 C14
run p08 C04 C11 C14
run p09 C12 C15 C14
run p10 C13 C14 C12
