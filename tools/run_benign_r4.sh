#!/bin/sh
# second set of behaviour-preserving refactorings written by a sub-agent (seeded/benign/m01..m10)
cd /verif
run() { sh tools/run_benign.sh "$@" >> .cache/logs/benign_r4.txt 2>&1; }
: > .cache/logs/benign_r4.txt
run m01 C10 C07 C01
run m02 C11
run m03 C11
run m04 C11
run m05 C06 C01
run m06 C05 C20 C01
run m07 C19 C02 C03 C04
run m08 C13 C14 C12
run m09 C12 C14 C15
run m10 C12 C14 C11 C15
