#!/bin/sh
cd /verif
: > .cache/logs/r4_summary.txt
for d in ${*:-$(ls -d seeded/C??_e | xargs -n1 basename)}; do
  p=$(echo $d | cut -c1-3)
  sh tools/run_seed.sh $d $p > /tmp/seedrun_out.txt 2>&1
  head -4 /tmp/seedrun_out.txt | cut -c1-260 >> .cache/logs/r4_summary.txt
  cp /tmp/seedrun_${d}_$p.log .cache/logs/ 2>/dev/null
done
rm -f /tmp/seedrun_out.txt
