#!/bin/sh
# run every round-2 seed against the quick check of the property it targets; summary in .cache/logs/r2_summary.txt
cd /verif
for d in ${*:-$(ls -d seeded/C??_[ab] | xargs -n1 basename)}; do
  p=$(echo $d | cut -c1-3)
  out=$(sh tools/run_seed.sh $d $p 2>&1)
  echo "$out" | head -4 >> .cache/logs/r2_summary.txt
  cp /tmp/seedrun_${d}_$p.log .cache/logs/ 2>/dev/null
done
