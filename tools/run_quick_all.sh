#!/bin/sh
# run the quick tier of every claimed check in sequence on the current tree; summary in .cache/logs/quick_summary.txt
cd /verif
: > .cache/logs/quick_summary.txt
for id in ${*:-C01 C02 C03 C04 C05 C06 C07 C08 C09 C10 C11 C12 C13 C14 C15 C19 C20}; do
  s=$(date +%s)
  timeout 3000 ./check $id --tier quick > .cache/logs/quick_$id.log 2>&1
  rc=$?
  e=$(date +%s)
  echo "$id exit=$rc wall=$((e-s))s $(grep -c '^KNOWN-FINDING' .cache/logs/quick_$id.log) known $(grep -c '^VIOLATION' .cache/logs/quick_$id.log) viol" >> .cache/logs/quick_summary.txt
done
