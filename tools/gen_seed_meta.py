#!/usr/bin/env python3
"""Write seeded/<name>/meta.json for the round-2 seeds from README.md, confirm.json and the log of the detecting run
(.cache/logs/seedrun_<name>_<prop>.log, produced by tools/run_r2.sh / tools/run_seed.sh)."""
import json, os, re, sys
ROOT = os.path.dirname(os.path.dirname(os.path.abspath(__file__)))
DETECTED_BY_OTHER = {'C03_b': 'C19', 'C03_g': 'C19'}     # seeds whose breakage shows under another property's check (see DESIGN §5)
for d in sorted(os.listdir(os.path.join(ROOT, 'seeded'))):
    if not re.match(r'^C\d\d_[a-g]$', d):
        continue
    sd = os.path.join(ROOT, 'seeded', d)
    prop = d[:3]
    cprop = DETECTED_BY_OTHER.get(d, prop)
    readme = open(os.path.join(sd, 'README.md')).read().strip() if os.path.exists(os.path.join(sd, 'README.md')) else ''
    conf = json.load(open(os.path.join(sd, 'confirm.json'))) if os.path.exists(os.path.join(sd, 'confirm.json')) else {}
    log = os.path.join(ROOT, '.cache', 'logs', 'seedrun_%s_%s.log' % (d, cprop))
    exit_status, role = None, None
    if os.path.exists(log):
        txt = open(log).read()
        m = re.search(r'^  role=(\S+)', txt, re.M)
        role = m.group(1) if m else None
        exit_status = 1 if re.search(r'^VIOLATION ', txt, re.M) else (2 if 'INCONCLUSIVE' in txt else 0)
    demo_fails = (conf.get('demo_exit_with_patch', 0) != 0) or (conf.get('demo_alloc_with_patch', 0) != 0)
    demo_ok = conf.get('demo_exit_without_patch') == 0 and conf.get('demo_alloc_without_patch', 0) == 0
    meta = {
        'seed': d, 'round': {'a': 2, 'b': 2, 'c': 3, 'd': 3, 'e': 4, 'f': 5, 'g': 6}[d[-1]], 'breaks_property': prop,
        'needs_to_manifest': ' '.join(readme.split())[:600],
        'origin': 'written by an independent sub-agent given only the property text and its own scratch worktree (no access to /verif)',
        'confirmed_by_me': {'how': 'tools/confirm_seed.sh %s in a scratch worktree of /repo HEAD' % d,
                            'suite_passes_with_patch': conf.get('suite_exit_with_patch') == 0,
                            'demo_fails_with_patch': demo_fails, 'demo_passes_without_patch': demo_ok, 'raw': conf},
        'detected_by': {'check': './check %s --tier quick' % cprop, 'how_run': 'tools/run_seed.sh %s %s' % (d, cprop),
                        'exit_status': exit_status, 'violation': role},
        'demo_location': open(os.path.join(sd, 'demo_path.txt')).read().strip() if os.path.exists(os.path.join(sd, 'demo_path.txt')) else None,
    }
    json.dump(meta, open(os.path.join(sd, 'meta.json'), 'w'), indent=1)
    print(d, cprop, exit_status, role)
