#!/bin/sh
# run the thorough tier of every claimed check in sequence; one log each under .cache/logs
cd /verif
for id in ${*:-C12 C13 C14 C15 C09 C10 C07 C08 C06 C04 C19 C11 C01 C02 C20 C03 C05}; do
  s=$(date +%s)
  timeout ${THOROUGH_TIMEOUT:-5400} ./check $id --tier thorough > .cache/logs/thorough_$id.log 2>&1
  rc=$?
  e=$(date +%s)
  echo "$id exit=$rc wall=$((e-s))s" >> .cache/logs/thorough_summary.txt
done
