#!/bin/sh
# run_benign.sh <name> <property...>: apply a behaviour-preserving refactoring, run the checks (must exit 0), undo.
B=/verif/seeded/benign/$1.diff; shift
cd /repo && git apply "$B" || { echo "patch does not apply"; exit 9; }
( cd /repo && cargo test --workspace --offline >/tmp/benign_suite.log 2>&1; echo "suite exit=$?" )
for P in "$@"; do cd /verif && timeout 1500 ./check $P --tier quick > /tmp/benign_$P.log 2>&1; echo "benign=$B prop=$P exit=$?"; grep -E "^VIOLATION|^  role=|INCONCLUSIVE" /tmp/benign_$P.log | cut -c1-200 | head -3; done
git -C /repo checkout -- .
