#!/bin/sh
# behaviour-preserving refactorings written by an independent sub-agent (seeded/benign/n01..n10): every relevant quick
# check must exit 0
cd /verif
run() { sh tools/run_benign.sh "$@" >> .cache/logs/benign_r3.txt 2>&1; }
: > .cache/logs/benign_r3.txt
run n01 C03 C02 C19
run n02 C06 C09
run n03 C05 C20 C01
run n04 C19 C03 C02 C14
run n05 C06 C10 C01
run n06 C08 C09 C07
run n07 C07 C14 C01
run n08 C11 C04
run n09 C12 C13 C14 C15 C01
run n10 C14 C15 C13 C12
