#!/bin/sh
# run_seed.sh <seed dir name> <property> [tier]: apply a seeded change to /repo, run the property's check, undo.
set -u
S=/verif/seeded/$1; P=$2; T=${3:-quick}
cd /repo && git apply "$S/patch.diff" || { echo "patch does not apply"; exit 9; }
cd /verif && timeout 1500 ./check $P --tier $T > /tmp/seedrun_$1_$P.log 2>&1; rc=$?
git -C /repo checkout -- .
echo "seed=$1 prop=$P exit=$rc"
grep -E "^VIOLATION|^  role=|INCONCLUSIVE" /tmp/seedrun_$1_$P.log | cut -c1-260 | head -6
exit $rc
