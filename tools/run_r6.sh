#!/bin/sh
# run_r6.sh <seed>... : confirm each round-6 seed in a scratch worktree, then run its property's quick check against it.
cd /verif; mkdir -p .cache/logs
for d in "$@"; do
  p=$(echo $d | cut -c1-3)
  sh tools/confirm_seed.sh $d
  sh tools/run_seed.sh $d $p > /tmp/seedrun_out.txt 2>&1
  head -4 /tmp/seedrun_out.txt | cut -c1-260 | tee -a .cache/logs/r6_summary.txt
  cp /tmp/seedrun_${d}_$p.log .cache/logs/ 2>/dev/null
done
rm -f /tmp/seedrun_out.txt
