#!/bin/sh
# every seeded change against the quick check of its property (C03_b, C03_g: against C19, see DESIGN §5)
cd /verif
: > .cache/logs/seeds_summary.txt
for d in $(ls seeded | grep -E '^C[0-9][0-9](_[a-g])?$'); do
  p=$(echo $d | cut -c1-3)
  [ "$d" = "C03_b" ] && p=C19
  [ "$d" = "C03_g" ] && p=C19
  sh tools/run_seed.sh $d $p > /tmp/seedrun_out.txt 2>&1
  head -3 /tmp/seedrun_out.txt | cut -c1-240 >> .cache/logs/seeds_summary.txt
  cp /tmp/seedrun_${d}_$p.log .cache/logs/ 2>/dev/null
done
rm -f /tmp/seedrun_out.txt
