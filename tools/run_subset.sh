#!/bin/sh
# run_subset.sh <seed>... : each seed against the quick check of its property (C03_b: C19)
cd /verif
: > .cache/logs/seeds_subset.txt
for d in "$@"; do
  p=$(echo $d | cut -c1-3)
  [ "$d" = "C03_b" ] && p=C19
  sh tools/run_seed.sh $d $p 2>&1 | head -3 | cut -c1-260 >> .cache/logs/seeds_subset.txt
  cp /tmp/seedrun_${d}_$p.log .cache/logs/ 2>/dev/null
done
