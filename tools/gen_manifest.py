#!/usr/bin/env python3
"""Regenerates MANIFEST.json from the table below (keeps it schema-valid)."""
import json
import os

ROOT = os.path.dirname(os.path.dirname(os.path.abspath(__file__)))

MIRSYM_NOTE = ('Trusted base: rustc MIR dump (nightly 1.97) as the program text; the mirsym interpreter; builtin models of '
               'deku 0.18.1 Reader/primitive readers, std::io::Cursor, default read_exact/read_to_end, core Option/Result/'
               'Vec/String/fmt primitives (each validated per explored path against the real build); z3 4.x. Bounds: '
               'buffer lengths listed in the evidence file; bytes fully symbolic; logging (tracing) outside the claim.')

CHECKS = {
    'C02': ('model_checking', 'symbolic execution of the MIR of Frame::from_bytes (mirsym) + z3 obligations per leaf',
            'Every path of Frame::from_bytes over fully symbolic buffers of the explored lengths is enumerated by the '
            'solver; per path z3 discharges: variant<->format code, length discipline, the rejection set (both directions '
            'for operational status), and equality with the decode of the first 7/14 bytes (trailing bytes never matter). '
            'unsat = holds for every buffer of that length.', '§2 C02'),
    'C03': ('model_checking', 'mirsym (window lemma) + Kani/CBMC harnesses on crc.rs (table, equivalence with bitwise division, linearity) + z3 (burst / weight<=5 error patterns)',
            'Lemma chain decided by solvers: CRC table = 8 bitwise steps (Kani), modes_checksum = polynomial long division for all '
            '2^56/2^112 frames (Kani), Frame.crc = modes_checksum over exactly the first 7/14 bytes on every decode path (mirsym), '
            'linearity and non-zero syndrome of every burst <= 24 bits and every error pattern of weight <= 5 (z3/Kani).', '§2 C03'),
    'C04': ('model_checking', 'mirsym leaves of Frame::from_bytes + z3 obligations: field term == Annex 10 bit slice',
            'For every decode path and every header/address/parity field the solver proves the decoded term equal to the '
            'bit slice Annex 10 assigns, for all values of all other bits; ICAO Display/FromStr round trip by Kani over all 2^24 addresses.', '§2 C04'),
    'C06': ('model_checking', 'mirsym leaves + z3 equivalence with an independent Gillham/25-ft reference for all 2^13 / 2^12 codes',
            'One solver query per carrier path proves the decoded altitude equal to a textbook (Gray code) reference for every code and every surrounding bit.', '§2 C06'),
    'C07': ('model_checking', 'mirsym leaves (fields) + symbolic execution of AirborneVelocity::calculate with atan2/hypot uninterpreted',
            'Fields: decoded term == bit slice for all inputs. calculate(): presence rule, components (x4 supersonic, signs), vertical rate proved for all inputs; '
            'heading/speed proved to be wrap(atan2(E,N)*180/pi) and hypot(E,N) of those components (libm functions uninterpreted).', '§2 C07'),
    'C08': ('model_checking', 'mirsym leaves + z3: decoded character sequence == 8 mapped 6-bit characters with spaces removed',
            'For every space/non-space pattern (one path each) the solver proves every kept character equals the Annex 10 alphabet entry of the right code, for all 64^8 strings, in both carriers.', '§2 C08'),
    'C09': ('model_checking', 'mirsym leaves + z3: identity == de-interleaved ABCD digits in DF5, DF21 and type 28',
            'All 8192 codes with arbitrary surrounding bits, per carrier, by one unsat query each; subtype/emergency enums == their 3-bit fields.', '§2 C09'),
    'C10': ('model_checking', 'mirsym leaves + z3: every interpreted payload field == DO-260B bit slice/scaling; dispatch tables',
            'Per payload path one obligation per field (f32 scalings compared as IEEE terms), plus ME/BDS/op-status dispatch tables, for all 2^56 payloads under DF17/18/20/21; a full-length DF17/18/20/21 frame is rejected only for the operational-status reserved-bits/version condition.', '§2 C10'),
}

TRACKER_NOTE = MIRSYM_NOTE + (' Tracker: one inductive step from an arbitrary pre-state satisfying the stated representation '
                'invariant (k symbolic records); cpr::get_position stubbed as an uninterpreted function with the parity rule; '
                'BTreeMap modelled with concrete structure / symbolic keys (iteration order not modelled); clock symbolic ((s, ns) pairs). '
                'Counterexamples are replayed natively at the level of the step (model written out as serde JSON, real crates run by /verif/replay_step); roles whose expected value depends on uninterpreted libm / get_position results are reported as not replayable.')
CHECKS.update({
    'C01': ('model_checking', 'mirsym: every MIR assert/unwrap/bounds check on every path of decode, Display, calculate, get_position and the tracker step is an unsat query',
            'No panic leaf is feasible on any path of Frame::from_bytes (lengths 0..=32 thorough), of Display/calculate on every decoded frame, of get_position on two arbitrary '
            'reports, and of Airplanes::action on an arbitrary frame from an arbitrary valid tracker state; fuel bound rules out non-termination; appended bytes bounded by 4*len+64.', '§2 C01'),
    'C12': ('model_checking', 'mirsym: one symbolic step of Airplanes::action from an arbitrary valid state vs a reference model, equality decided by z3',
            'Step lemma: added-flag, key set, message count and isolation (all other records identical) for every frame class and an arbitrary map of k records; histories of any length follow by induction on the invariant.', '§2 C12'),
    'C13': ('model_checking', 'mirsym step lemma (position record vs reference model) + haversine formula identity in real arithmetic with uninterpreted sin/cos/atan2/sqrt',
            'Post position record equals the reference rule (pair most recent even/odd, range check, 100 km jump check, clear otherwise) on every path; the distance term equals the reference haversine formula (R = 6371) modulo real-arithmetic identities.', '§2 C13'),
    'C14': ('model_checking', 'mirsym step lemma for attributes/track + symbolic execution of aircraft_details/all_position on arbitrary maps',
            'Latest-wins attributes, untouched other attributes, track = previous track ++ superseded record, invariants (distance iff position, slot parity) re-established; views equal their definitions on arbitrary states.', '§2 C14'),
    'C15': ('model_checking', 'mirsym: prune() from an arbitrary map with symbolic threshold and symbolic (monotone and free-running) clock',
            'A record survives iff now - last_heard < T seconds (clock error => removed), survivors untouched; every frame of an aircraft stamps its record with a clock reading taken while the frame is handled (step lemma, every frame class), so the age prune measures is the time since the most recent message. Counterexamples are replayed natively on the real crates (serde JSON of the model, /verif/replay_step).', '§2 C15'),
})

CHECKS['C19'] = ('model_checking', 'mirsym: Frame::from_reader over a fault-scheduling reader (forks on every short-read size / Interrupted placement), z3 equality with Frame::from_bytes per (path, schedule)',
                 'For every frame class (each has its own read/seek pattern) and every schedule with up to 1 (quick) / 2 (thorough) events placed anywhere in the call sequence, the solver proves frame and checksum equal to the slice decode for all byte values; counterexamples are replayed natively with the same schedule.', '§2 C19')

CHECKS['C20'] = ('translation_validation', 'mirsym on two MIR dumps (std / alloc-only): same symbolic explorations, z3 equality of outputs for every pair of jointly feasible paths',
                 'First half of the property only (serde half: see not_applicable note in DESIGN §3): decode + rendering for every path at lengths 7/14, get_position on two arbitrary reports, and one tracker step per frame class are compared between the two feature configurations; unsat = no input distinguishes the builds.', '§2 C20')

CHECKS['C05'] = ('model_checking', 'mirsym: closed-form f64 terms of get_position / cpr_nl from symbolic execution of the MIR; z3 QF_FP/QF_BV queries per sub-claim; mpmath enclosures for the NL thresholds',
                 'Decided: parity rule and panic-freedom for all inputs (bit-vector); the 58 NL transition latitudes (each within 1e-7 deg of the Annex formula) and the zone count in each of the 59 zones for every f64 latitude; latitude in [-90, 270) for every returned position (unsat); existence of returned positions with latitude in (90, 270) and of returned positions for pairs in different NL zones (the two known findings, witnesses replayed natively). Quick also searches (60 s cap per query, bug hunting only: a timeout is listed as undecided, not a pass of the sub-claim) for a longitude outside [-180, 180) on the sub-space where the latest lon_cpr is one of 0, 1, 32768, 65535, 65536, 65537, 98304, 131071 and the other is any of these, latitudes free. Thorough adds longitude in [-180, 180) for all inputs and the fmod side condition (both unsat within the 900 s cap). Accuracy vs. the true position and re-encoding consistency are outside the claim.', '§2 C05')

CHECKS['C11'] = ('model_checking', 'mirsym: symbolic execution of <Frame as Display>::fmt on every decode path (output = literal/value segments) + z3: branch conditions and printed values equal the per-type template',
                 'For each of the ~46 000 rendering paths (every renderer branch of every frame type) the literal skeleton must be a template alternative and the solver proves the path condition implies that alternative\'s condition and that every printed value term equals the decoded field the template names; non-empty report for every type but DF19.', '§2 C11')

NOT_APPLICABLE = [
    ('C16', 'socket I/O, read timeouts and stream segmentation are environment behaviour inline in main(); no unit a solver can execute'),
    ('C17', 'pty/raw-mode/TUI event histories through crossterm + ratatui and threads; outside Kani and the MIR executor'),
    ('C18', 'property is about the rendered terminal screen produced by ratatui widgets'),
]

PENDING = {
}


def main():
    claimed = {}
    table = json.load(open(os.path.join(ROOT, 'tools', 'claims.json'))) if os.path.exists(os.path.join(ROOT, 'tools', 'claims.json')) else {}
    checks = []
    for pid in sorted(set(CHECKS) | set(table)):
        if pid in table and pid not in CHECKS:
            cat, tech, text, ref = table[pid]
        else:
            cat, tech, text, ref = CHECKS[pid]
        checks.append({
            'property_id': pid,
            'quick_cmd': './check %s --tier quick' % pid,
            'thorough_cmd': './check %s --tier thorough' % pid,
            'evidence_file': '/verif/evidence/%s.json' % pid,
            'replay_cmd_template': './check %s --replay {path}' % pid,
            'engine': 'mirsym',
            'level_claimed': {'category': cat, 'text': text, 'design_ref': 'DESIGN.md ' + ref},
            'level_note': TRACKER_NOTE if pid in ('C12', 'C13', 'C14', 'C15', 'C01') else MIRSYM_NOTE,
            'technique': tech,
        })
        claimed[pid] = True
    na = [{'property_id': p, 'reason': r} for p, r in NOT_APPLICABLE]
    for p, r in sorted(PENDING.items()):
        if p not in claimed:
            na.append({'property_id': p, 'reason': r})
    man = {
        'version': 1,
        'setup_cmd': './setup.sh',
        'hooks': {
            'guard': 'rsadsb_adsb_deku_verif',
            'enable': 'none needed: no source hooks are used; checks read /repo\'s working tree (MIR dump + path dependencies)',
            'baseline_off_cmd': 'cd /repo && cargo test --workspace --no-fail-fast --offline',
            'source_commits': [],
            'add_only': True,
        },
        'engines': [
            {'name': 'mirsym', 'path': '/verif/mirsym', 'serves_properties': sorted(claimed),
             'kind_free_text': 'symbolic executor over rustc MIR (regenerated from /repo on every run) with state merging; z3 decides path feasibility and every property obligation; counterexamples are replayed against the real build (/verif/replay)'},
            {'name': 'kani', 'path': '/verif/kani', 'serves_properties': ['C03', 'C04'],
             'kind_free_text': 'Kani 0.68 / CBMC harnesses over crc.rs, mode_ac.rs (included with #[path]) and public kernels'},
        ],
        'checks': checks,
        'notes': 'Solver-based checking of the real code; see DESIGN.md. Known findings: known_findings.jsonl. The builtin models of std/core used by the symbolic executor are validated against the real std by `python3-vt -m mirsym.selftest` (38 functions, native vs concrete vs symbolic execution). Thorough tier re-decides every 5th unsat verdict with cvc5.',
        'not_applicable': na,
    }
    json.dump(man, open(os.path.join(ROOT, 'MANIFEST.json'), 'w'), indent=1)
    print('wrote MANIFEST.json with %d checks, %d not_applicable' % (len(checks), len(na)))


if __name__ == '__main__':
    main()
