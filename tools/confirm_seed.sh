#!/bin/sh
# confirm_seed.sh <seed name> : in a scratch worktree verify (1) the suite passes with the patch, (2) the demo fails with
# the patch, (3) the demo passes without it.  Writes /verif/seeded/<name>/confirm.json.  Seeds of C20 run the demo in
# both feature configurations (default = std, and --no-default-features --features alloc).
S=/verif/seeded/$1
WT=/tmp/wt_confirm_$1
export CARGO_NET_OFFLINE=true CARGO_TARGET_DIR=/tmp/wt_confirm_target
git -C /repo worktree remove --force $WT >/dev/null 2>&1
git -C /repo worktree add --detach $WT HEAD >/dev/null 2>&1 || exit 9
cd $WT
if grep -q "rsadsb_common" $S/patch.diff; then DEMO=rsadsb_common/tests/seed_demo.rs; PKG=rsadsb_common; else DEMO=libadsb_deku/tests/seed_demo.rs; PKG=adsb_deku; fi
[ -f $S/demo_path.txt ] && DEMO=$(cat $S/demo_path.txt)
case $DEMO in rsadsb_common/*) PKG=rsadsb_common;; libadsb_deku/*) PKG=adsb_deku;; esac
git apply $S/patch.diff || { echo '{"applies": false}' > $S/confirm.json; exit 1; }
cargo test --workspace --no-fail-fast --offline > /tmp/confirm_$1_suite.log 2>&1; SUITE=$?
mkdir -p $(dirname $DEMO); cp $S/demo.rs $DEMO
cargo test -p $PKG --test seed_demo --offline > /tmp/confirm_$1_with.log 2>&1; WITH=$?
ALLOC=""
case $1 in C20*)
  cargo test -p $PKG --test seed_demo --offline --no-default-features --features alloc > /tmp/confirm_$1_with_alloc.log 2>&1; WITHA=$?;;
esac
git checkout -- . 2>/dev/null
cargo test -p $PKG --test seed_demo --offline > /tmp/confirm_$1_without.log 2>&1; WITHOUT=$?
case $1 in C20*)
  cargo test -p $PKG --test seed_demo --offline --no-default-features --features alloc > /tmp/confirm_$1_without_alloc.log 2>&1; WITHOUTA=$?
  ALLOC=$(printf ', "demo_alloc_with_patch": %d, "demo_alloc_without_patch": %d' $WITHA $WITHOUTA);;
esac
cd /; git -C /repo worktree remove --force $WT >/dev/null 2>&1
printf '{"applies": true, "suite_exit_with_patch": %d, "demo_exit_with_patch": %d, "demo_exit_without_patch": %d%s}\n' $SUITE $WITH $WITHOUT "$ALLOC" > $S/confirm.json
rm -f /tmp/confirm_$1_*.log
cat $S/confirm.json
