"""C04: address / header fields verbatim (mirsym, see decode_props.c04) + ICAO text round trip (Kani, all 2^24 addresses)
+ ICAO Display = the six lower-case hex digits of the three bytes, whatever the segmentation (mirsym + z3)."""
import time

import z3

from checks import framework as fw
from checks import decode_driver, kani_run


def seg_hex_chars(sg):
    """characters (32-bit code terms) of one rendered segment, or None if it is not fixed-width lower-case hex"""
    from mirsym.values import Int, to_bv
    if isinstance(sg, str):
        return [z3.BitVecVal(ord(c), 32) for c in sg]
    if sg[0] == 'chars':
        return [z3.ZeroExt(32 - to_bv(c).size(), to_bv(c)) if to_bv(c).size() < 32 else to_bv(c) for c in sg[1]]
    if sg[0] != 'val' or not isinstance(sg[2], Int):
        return None
    parts = sg[1].split(':')
    if parts[0] != 'lower_hex':
        return None
    flags, width = 0, None
    for p in parts[1:]:
        if p.startswith('f'):
            flags = int(p[1:], 16)
        elif p.startswith('w'):
            width = int(p[1:])
    if width is None or not (flags >> 24) & 1:
        return None
    v = to_bv(sg[2])
    W = v.size()
    if 4 * width < W:
        sv = z3.Solver()
        sv.add(z3.UGE(v, z3.BitVecVal(1 << (4 * width), W)))
        if sv.check() != z3.unsat:
            return None
    out = []
    for i in reversed(range(width)):
        nib = z3.Extract(4 * i + 3, 4 * i, v) if 4 * i + 3 < W else z3.BitVecVal(0, 4)
        n32 = z3.ZeroExt(28, nib)
        out.append(z3.If(z3.ULT(n32, 10), n32 + 48, n32 + 87))
    return out


def run_job(prog, job):
    from mirsym.execu import Executor
    from mirsym import builtins as _b
    from mirsym.values import Struct, Arr, Int, Ref, RString
    res = {'paths': 1, 'obligations': 1, 'discharged': 0, 'violations': [], 'samples': []}
    bs = [z3.BitVec('a%d' % i, 8) for i in range(3)]
    icao = Struct('ICAO', (Arr([Int('u8', b) for b in bs]),))
    ex = Executor(prog, _b.B)
    ls = ex.run_builtin_call('<ICAO as ToString>::to_string', [Ref(('V', icao))])
    ok = len(ls) == 1 and ls[0].kind == 'return' and isinstance(ls[0].value, RString)
    why = 'rendering forks or fails'
    if ok:
        # the rendered characters, whatever the segmentation ({:02x}{:02x}{:02x}, one {:06x} of the 24-bit value, ...):
        # a zero-padded lower-hex segment of width w prints exactly w digits iff its value is below 16^w
        got = []
        for sg in ls[0].value.segs:
            cs = seg_hex_chars(sg)
            if cs is None:
                ok, why = False, 'segment %r is not zero-padded lower-case hex of a value that fits its width' % (sg,)
                break
            got += cs
    if ok:
        exp = []
        for b in bs:
            for nib in (z3.LShR(b, 4), b & 15):
                n32 = z3.ZeroExt(24, nib)
                exp.append(z3.If(z3.ULT(n32, 10), n32 + 48, n32 + 87))
        if len(got) != 6:
            ok, why = False, '%d characters instead of 6' % len(got)
        else:
            sv = z3.Solver()
            sv.add(z3.Or(*[g != e for g, e in zip(got, exp)]))
            r = sv.check()
            ok = r == z3.unsat
            if not ok:
                why = 'characters differ from the six lower-case hex digits of the address' + (' for %s' % sv.model() if r == z3.sat else ' (solver: %s)' % r)
    if ok:
        res['discharged'] = 1
    else:
        res['violations'].append({'property': 'C04', 'role': 'icao-display', 'witness': None, 'predicted': None,
                                  'detail': 'ICAO Display is not the six lower-case hex digits of its bytes: %s; rendered %r' % (why, ls[0].value if ls else None)})
    res['samples'].append({'icao_display_segments': str(ls[0].value)[:300] if ls else None})
    return res


def main(tier):
    t0 = time.time()
    d_results, cov, _ = decode_driver.run('C04', tier)
    files, dirs, info = fw.dump_all(['adsb_deku'])
    s_results = fw.run_jobs('checks.c04', [{'kind': 'icao-display'}], files, dirs, nproc=1)
    kres = kani_run.run_many(['icao_text_round_trip'], timeout_s=900, jobs=1)
    k_results = kani_run.to_results('C04', kres)
    results = d_results + s_results + k_results
    cnt = fw.merge_counts(s_results + k_results, ['obligations', 'discharged'])
    cov['obligations'] += cnt['obligations']
    cov['discharged'] += cnt['discharged']
    cov['kani_harnesses'] = kres
    cov['samples'] = (cov.get('samples') or [])[:8] + [s for r in s_results + k_results for s in r['samples']]
    assume = decode_driver.ASSUME + ['ICAO::from_str / u32::from_str_radix: Kani harness over all 2^24 addresses (the real core implementation is executed by CBMC)',
                                     'core::fmt number formatting is trusted for zero-padded lower-hex segments of a value that fits the width ({:02x} of a byte, {:06x} of a 24-bit value): such a segment prints exactly its hex digits']
    fw.finish('C04', tier, t0, results, cov, assume, level='model_checking', replay_fn=lambda v: True if (v.get('kani') or v.get('role') == 'icao-display') else decode_driver.replay_violation(v))
