"""C04: address / header fields verbatim (mirsym, see decode_props.c04) + ICAO text round trip (Kani, all 2^24 addresses)
+ ICAO Display = three {:02x} segments of the three bytes (mirsym, segment level)."""
import time

import z3

from checks import framework as fw
from checks import decode_driver, kani_run


def run_job(prog, job):
    from mirsym.execu import Executor
    from mirsym import builtins as _b
    from mirsym.values import Struct, Arr, Int, Ref, RString
    res = {'paths': 1, 'obligations': 1, 'discharged': 0, 'violations': [], 'samples': []}
    bs = [z3.BitVec('a%d' % i, 8) for i in range(3)]
    icao = Struct('ICAO', (Arr([Int('u8', b) for b in bs]),))
    ex = Executor(prog, _b.B)
    ls = ex.run_builtin_call('<ICAO as ToString>::to_string', [Ref(('V', icao))])
    ok = len(ls) == 1 and ls[0].kind == 'return' and isinstance(ls[0].value, RString)
    if ok:
        segs = ls[0].value.segs
        ok = (len(segs) == 3 and all(isinstance(s, tuple) and s[0] == 'val' and s[1].startswith('lower_hex') and ':w2' in s[1]
                                     and (int(s[1].split(':f')[1].split(':')[0], 16) >> 24) & 1 for s in segs)
              and all(isinstance(s[2], Int) and s[2].v.eq(b) for s, b in zip(segs, bs)))
    if ok:
        res['discharged'] = 1
    else:
        res['violations'].append({'property': 'C04', 'role': 'icao-display', 'witness': None, 'predicted': None,
                                  'detail': 'ICAO Display is not three zero-padded two-digit lower-case hex segments of its bytes: %r' % (ls[0].value if ls else None,)})
    res['samples'].append({'icao_display_segments': str(ls[0].value)[:300] if ls else None})
    return res


def main(tier):
    t0 = time.time()
    d_results, cov, _ = decode_driver.run('C04', tier)
    files, dirs, info = fw.dump_all(['adsb_deku'])
    s_results = fw.run_jobs('checks.c04', [{'kind': 'icao-display'}], files, dirs, nproc=1)
    kres = kani_run.run_many(['icao_text_round_trip'], timeout_s=900, jobs=1)
    k_results = kani_run.to_results('C04', kres)
    results = d_results + s_results + k_results
    cnt = fw.merge_counts(s_results + k_results, ['obligations', 'discharged'])
    cov['obligations'] += cnt['obligations']
    cov['discharged'] += cnt['discharged']
    cov['kani_harnesses'] = kres
    cov['samples'] = (cov.get('samples') or [])[:8] + [s for r in s_results + k_results for s in r['samples']]
    assume = decode_driver.ASSUME + ['ICAO::from_str / u32::from_str_radix: Kani harness over all 2^24 addresses (the real core implementation is executed by CBMC)',
                                     'core::fmt number formatting ({:02x}) is trusted: the check proves the three segments are the three bytes with spec lower-hex, width 2, zero padded']
    fw.finish('C04', tier, t0, results, cov, assume, level='model_checking', replay_fn=lambda v: True if (v.get('kani') or v.get('role') == 'icao-display') else decode_driver.replay_violation(v))
