"""C03: checksum = Mode S parity syndrome; error detection.  Lemma chain (each decided by a solver):
  1. table lemma           (Kani)  CRC_TABLE[b] = remainder of b*x^24, all b
  2. equivalence           (Kani)  modes_checksum == bitwise long division XOR last 24 bits, all 2^56 (and 2^112, thorough) frames;
                                   length guard for all buffer lengths 0..=32
  3. window                (mirsym) Frame.crc == modes_checksum(first 7/14 bytes) on every decode path
  4. linearity             (z3)    one division step is XOR-linear in (remainder, input bit) => the syndrome is linear
                                   (induction over the 32/88 steps; the composition is the only non-solver step)
  5. error detection       (z3)    every burst of <= 24 bits at every offset and every pattern of weight <= 4 (quick) /
                                   <= 5 (thorough) has a non-zero syndrome, for 56- and 112-bit frames
  consequences (definitional given 2): crc == 0 <=> last 24 bits == parity(rest); crc = AP xor parity = address for
  address/parity formats; crc = interrogator code overlay for DF11."""
import os
import sys
import time

import z3

from checks import framework as fw
from checks import decode_driver, kani_run
from checks import oracles as O


def z3_jobs(tier):
    jobs = [{'kind': 'step-linear'}]
    for n in (56, 112):
        for k in range(0, n - 24 + 1):
            jobs.append({'kind': 'burst', 'n': n, 'offset': k})
        maxw = 4 if tier == 'quick' else 5
        for wgt in range(1, maxw + 1):
            if wgt < 5:
                jobs.append({'kind': 'weight', 'n': n, 'w': wgt, 'first': None})
            else:
                for first in range(n):
                    jobs.append({'kind': 'weight', 'n': n, 'w': wgt, 'first': first})
    return jobs


def run_job(prog, job):
    res = {'paths': 1, 'obligations': 1, 'discharged': 0, 'violations': [], 'samples': [], 'solver_s': 0.0}
    t = time.time()
    kind = job['kind']
    s = z3.Solver()
    s.set('timeout', 300000)
    if kind == 'step-linear':
        def step(rem, b):
            top = z3.Extract(23, 23, rem)
            fb = top ^ b
            r = z3.Concat(z3.Extract(22, 0, rem), z3.BitVecVal(0, 1))
            return z3.If(fb == 1, r ^ O.POLY, r)
        r1, r2 = z3.BitVecs('r1 r2', 24)
        b1, b2 = z3.BitVecs('b1 b2', 1)
        s.add(step(r1 ^ r2, b1 ^ b2) != step(r1, b1) ^ step(r2, b2))
        desc = 'one long-division step is XOR-linear'
    elif kind == 'burst':
        n, k = job['n'], job['offset']
        w = z3.BitVec('w', 24)
        e = z3.ZeroExt(n - 24, w) << k
        s.add(w != 0, O.syndrome(e) == 0)
        desc = 'burst of <= 24 bits at bit offset %d of a %d-bit frame has a non-zero syndrome' % (k, n)
    else:
        n, wgt, first = job['n'], job['w'], job['first']
        unit = [z3.simplify(O.syndrome(z3.BitVecVal(1 << (n - 1 - i), n))) for i in range(n)]

        def lookup(p):
            t_ = z3.BitVecVal(0, 24)
            for i in range(n):
                t_ = z3.If(p == i, unit[i], t_)
            return t_
        ps = [z3.BitVec('p%d' % i, 7) for i in range(wgt)]
        for p in ps:
            s.add(z3.ULT(p, n))
        for a, b in zip(ps, ps[1:]):
            s.add(z3.ULT(a, b))
        if first is not None:
            s.add(ps[0] == first)
        acc = lookup(ps[0])
        for p in ps[1:]:
            acc = acc ^ lookup(p)
        s.add(acc == 0)
        desc = 'no %d distinct bit flips of a %d-bit frame cancel%s' % (wgt, n, '' if first is None else ' (first flip at bit %d)' % first)
    r = s.check()
    res['solver_s'] = time.time() - t
    if r == z3.unsat:
        res['discharged'] = 1
    elif r == z3.sat:
        m = s.model()
        res['violations'].append({'property': 'C03', 'role': 'error-detection:%s' % kind, 'witness': None, 'predicted': None,
                                  'detail': 'FAILS: %s; model %s' % (desc, {str(d): str(m[d]) for d in m.decls()})})
    else:
        res['inconclusive'] = 'solver unknown: ' + desc
    if kind == 'step-linear' or (kind == 'burst' and job['offset'] in (0, 40)) or (kind == 'weight' and job['first'] in (None, 0)):
        res['samples'].append({'obligation': desc, 'verdict': str(r), 'solver_s': round(res['solver_s'], 2)})
    return res


def main(tier):
    t0 = time.time()
    d_results, cov, _ = decode_driver.run('C03', tier)
    harnesses = ['crc_table_is_remainder', 'checksum_equals_division_56', 'checksum_length_guard', 'crc_table_linear']
    if tier == 'thorough':
        harnesses.append('checksum_equals_division_112')
    kres = kani_run.run_many(harnesses, timeout_s=1500, jobs=5)
    k_results = kani_run.to_results('C03', kres)
    jobs = z3_jobs(tier)
    z_results = fw.run_jobs('checks.c03', jobs, [], [])
    results = d_results + k_results + z_results
    cnt = fw.merge_counts(k_results + z_results, ['obligations', 'discharged', 'paths'])
    cov['obligations'] += cnt['obligations']
    cov['discharged'] += cnt['discharged']
    cov['kani_harnesses'] = kres
    cov['z3_error_detection_queries'] = len(jobs)
    cov['error_patterns'] = {'burst_len': 24, 'max_weight': 4 if tier == 'quick' else 5, 'frame_bits': [56, 112]}
    zs = []
    for r in z_results:
        zs += r.get('samples', [])
    cov['samples'] = (cov.get('samples') or [])[:6] + zs[:6] + [s for r in k_results for s in r['samples']][:5]
    cov['solver_s_error_detection'] = round(sum(r.get('solver_s', 0) for r in z_results), 1)
    assume = decode_driver.ASSUME + [
        'Kani 0.68 / CBMC 6.11 on crc.rs compiled from /repo with #[path] (unwinding assertions on, cover! vacuity witnesses)',
        'the 2^112 equivalence harness runs in the thorough tier only (165 s); the quick tier proves the 2^56 case, the table lemma and the length guard',
        'linearity of the whole syndrome follows from the step lemma by induction over the division steps (meta-argument, not a solver query)',
        'weight-5 error patterns are decided in the thorough tier only (quick: weight <= 4)']
    fw.finish('C03', tier, t0, results, cov, assume, level='model_checking', replay_fn=replay)


def replay(v):
    if v.get('kani') or v.get('role', '').startswith('error-detection'):
        return True
    return decode_driver.replay_violation(v)
