import argparse
import json
import os
import sys

ROOT = os.path.dirname(os.path.dirname(os.path.abspath(__file__)))
sys.path.insert(0, ROOT)

DECODE = {'C02', 'C06', 'C07', 'C08', 'C09', 'C10'}
DECODE_PLUS = {'C01'}


def main():
    ap = argparse.ArgumentParser()
    ap.add_argument('prop')
    ap.add_argument('--tier', default=os.environ.get('VERIF_TIER', 'quick'))
    ap.add_argument('--replay')
    a = ap.parse_args()
    if a.tier == 'thorough':
        # second solver (cvc5) on a sample of the unsat verdicts, see framework.cross_check
        os.environ.setdefault('VERIF_CROSSCHECK_EVERY', '5')
    if a.replay:
        from checks import replay
        sys.exit(replay.main(a.prop, a.replay))
    if a.prop in DECODE:
        from checks import decode_driver
        decode_driver.main(a.prop, a.tier)
    elif a.prop in ('C12', 'C13', 'C14', 'C15'):
        from checks import tracker_driver
        tracker_driver.main(a.prop, a.tier)
    elif a.prop == 'C11':
        from checks import c11
        c11.main(a.tier)
    elif a.prop == 'C05':
        from checks import c05
        c05.main(a.tier)
    elif a.prop == 'C03':
        from checks import c03
        c03.main(a.tier)
    elif a.prop == 'C04':
        from checks import c04
        c04.main(a.tier)
    elif a.prop == 'C20':
        from checks import c20
        c20.main(a.tier)
    elif a.prop == 'C19':
        from checks import c19
        c19.main(a.tier)
    elif a.prop == 'C01':
        from checks import c01
        c01.main(a.tier)
    else:
        mod = __import__('checks.%s' % a.prop.lower(), fromlist=['main'])
        mod.main(a.tier)


if __name__ == '__main__':
    main()
