"""C01: totality.  Union of (a) every path of Frame::from_bytes for buffer lengths 0..=32, (b) Display and
calculate() on every decoded frame, (c) cpr::get_position on two arbitrary position reports, (d) Airplanes::action
on an arbitrary frame of every class from an arbitrary valid tracker state: no path ends in a panic, every path
terminates within the fuel bound, and decoding appends at most 4*len+64 bytes to heap containers."""
import os
import sys
import time

import z3

from checks import framework as fw
from checks import decode_driver, tracker_driver
from mirsym import validate as V


def run_job(prog, job):
    """cpr job (runs in a pool worker)"""
    from checks import tracker
    from mirsym.execu import Executor
    from mirsym import builtins as _b
    from mirsym.values import Tup, Ref
    res = tracker.new_res()
    sym = tracker.Sym(prog)
    a = sym.altitude('a')
    b = sym.altitude('b')
    fn = prog.items[prog.find_free_fn('get_position')]
    ex = Executor(prog, _b.B)
    leaves = ex.run(fn, [Tup((Ref(('V', a)), Ref(('V', b))))], pc=list(sym.assume))
    tracker.note(res, ex)
    P = fw.Prover()
    for c in leaves:
        res['paths'] += 1
        P.set_path(c.pc)
        P.obligations += 1
        if c.kind == 'return':
            P.discharged += 1
        elif c.kind == 'panic':
            m = P.feasible()
            tracker.viol(res, 'C01', 'get_position-panics', 'get_position panics: %s (%s)' % (c.msg, c.where), m, {}, job)
        else:
            res['inconclusive'] = 'get_position exploration error: %s' % c.msg
    res['obligations'] = P.obligations
    res['discharged'] = P.discharged
    res['samples'].append({'pair': 'two arbitrary Altitude reports (all fields symbolic, both parities)', 'paths': len(leaves)})
    return res


def main(tier):
    t0 = time.time()
    # (a)+(b): decode, display, calculate
    d_results, d_cov, _ = decode_driver.run('C01', tier)
    # (c): get_position, (d): tracker step
    files, dirs, info = fw.dump_all(['adsb_deku', 'rsadsb_common'])
    cpr_results = fw.run_jobs('checks.c01', [{'kind': 'cpr'}], files, dirs, nproc=1)
    ks = [2] if tier == 'quick' else [0, 1, 2, 3]
    jobs = []
    for k in ks:
        jobs += tracker_driver.frame_jobs(['C01'], k, tier)
    t_results = fw.run_jobs('checks.tracker', jobs, files, dirs)
    for f in files:
        try:
            os.remove(f)
        except OSError:
            pass
    results = d_results + cpr_results + t_results
    cov = dict(d_cov)
    cnt = fw.merge_counts(cpr_results + t_results, ['paths', 'obligations', 'discharged', 'steps'])
    cov['states'] += cnt['paths']
    cov['transitions'] += cnt['steps']
    cov['obligations'] += cnt['obligations']
    cov['discharged'] += cnt['discharged']
    cov['get_position_paths'] = sum(r.get('paths', 0) for r in cpr_results)
    cov['tracker_step_paths'] = sum(r.get('paths', 0) for r in t_results)
    cov['display_paths'] = sum(r.get('display_paths', 0) for r in d_results)
    cov['max_bytes_appended_while_decoding'] = max([r.get('max_alloc', 0) for r in d_results] + [0])
    cov['fuel_bound_statements_per_path'] = 400000
    cov['explanation'] = ('every MIR assert (overflow, bounds, division), unwrap/expect and unreachable on every explored '
                          'path of decode, Display, calculate, get_position and the tracker step is a solver obligation '
                          '(path condition AND failure condition must be unsat)')
    assume = decode_driver.ASSUME + tracker_driver.ASSUME + [
        'num_messages of a tracked aircraft stays below u32::MAX (2^32-1 frames from one aircraft is not a reachable history)',
        "panics inside builtins are covered as far as the builtin models them (index checks, unwrap, deku's counters); allocation failure is not modelled",
        'floating-point comparisons are abstracted to Boolean atoms during exploration (over-approximates feasibility)']
    def replay(v):
        # decode-level counterexamples carry a witness frame and are replayed natively; counterexamples of the
        # get_position / tracker-step lemmas are models of a symbolic pre-state (see tracker_driver.replay_violation)
        if v.get('witness') is None and v.get('predicted') is None:
            return tracker_driver.replay_violation(v)
        return decode_driver.replay_violation(v)
    fw.finish('C01', tier, t0, results, cov, assume, level='model_checking', replay_fn=replay)
