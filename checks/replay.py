"""./check <id> --replay <path>: re-run a recorded counterexample against the real build."""
import json
import sys

from mirsym import validate as V


def main(prop, path):
    v = json.load(open(path))
    print('property %s role %s' % (v.get('property'), v.get('role')))
    print('detail: %s' % v.get('detail'))
    w = v.get('witness')
    if w is None:
        print('no byte witness recorded: %s' % json.dumps({k: v[k] for k in v if k not in ('job',)}, default=str)[:2000])
        return 2
    kind = v.get('replay_kind', 'decode')
    if kind == 'decode':
        for profile in ('debug', 'release'):
            r = V.native(['decode ' + w], profile)[0]
            print('[%s] %s' % (profile, json.dumps(r)[:1500]))
    else:
        req = v.get('replay_request')
        for profile in ('debug', 'release'):
            r = V.native([req], profile)[0]
            print('[%s] %s' % (profile, json.dumps(r)[:1500]))
    print('VIOLATION property=%s replay=%s' % (prop, path))
    return 1
