"""./check <id> --replay <path>: re-run a recorded counterexample against the real build of /repo's current tree.

Exit 1 + VIOLATION line if the recorded violation reproduces, exit 0 if it does not (e.g. after a fix), exit 2 if the
record cannot be replayed natively (Kani harness failures: re-run the check; roles that depend on uninterpreted libm
values)."""
import json

from mirsym import validate as V


def main(prop, path):
    v = json.load(open(path))
    print('property %s role %s' % (v.get('property'), v.get('role')))
    print('detail: %s' % v.get('detail'))
    ok, note = None, ''
    if v.get('step') is not None:
        from checks import step_replay
        step_replay.build()
        ok, note = step_replay.judge(v)
        print('native step: %s' % json.dumps(v.get('native'), default=str)[:1500])
    elif v.get('kani'):
        note = 'Kani harness failure: re-run ./check %s' % prop
    else:
        V.build_replay('debug')
        V.build_replay('release')
        fn = None
        if prop == 'C05' or v.get('replay_kind') == 'cpr':
            from checks import c05
            fn = c05.replay
        elif prop == 'C19':
            from checks import c19
            fn = c19.replay_violation
        elif prop == 'C03':
            from checks import c03
            fn = c03.replay
        elif prop == 'C11':
            from checks import c11
            fn = c11.replay
        elif v.get('witness') is not None and v.get('predicted') is not None:
            from checks import decode_driver
            fn = decode_driver.replay_violation
        if fn is not None:
            ok = fn(v)
            note = 'native: %s' % json.dumps(v.get('native'), default=str)[:1500]
        else:
            note = 'no native replay recorded for this role'
    print(note)
    if ok is True:
        print('VIOLATION property=%s replay=%s' % (prop, path))
        return 1
    if ok is False:
        print('does not reproduce on the current tree')
        return 0
    print('not replayable natively')
    return 2
