"""Driver for the tracker properties C12-C15 (and reused by C01)."""
import os
import sys
import time

from checks import framework as fw
from mirsym import validate as V

ASSUME = [
    'one inductive step from an arbitrary pre-state satisfying the representation invariant I1/I2/J (see checks/tracker.py); '
    'histories of any length follow by induction; the invariant itself is re-proved on every post-state',
    'pre-state: k symbolic records (distinct symbolic addresses), every Option of every record symbolic, track of length 1',
    'cpr::get_position is replaced by an uninterpreted function of both reports whose Some/None-ness is the parity rule '
    '(decided by check C05); libm sin/cos/atan2/hypot are uninterpreted',
    'BTreeMap is modelled with concrete structure and symbolic keys; its iteration order is not modelled',
    'wall clock: SystemTime::now() returns an arbitrary non-decreasing instant; timestamps are projected away (C20)',
    'tracing: LevelFilter::current() == OFF, logging is outside the claim',
]

def frame_jobs(props, k, tier):
    """one job per frame class: DF17 and DF18 with every payload class, and every non-ES format"""
    from checks import tracker
    jobs = []
    for carrier in ('ADSB', 'TisB'):
        for mc in tracker.ME_CLASSES:
            jobs.append({'kind': 'action', 'k': k, 'props': props, 'frames': ['%s/%s' % (carrier, mc)]})
    jobs.append({'kind': 'action', 'k': k, 'props': props, 'frames': list(tracker.NON_ES)})
    return jobs


def jobs_for(prop, tier):
    ks = [2] if tier == 'quick' else [0, 1, 2, 3]
    jobs = []
    if prop in ('C12', 'C13', 'C14'):
        for k in ks:
            js = frame_jobs([prop], k, tier)
            if prop == 'C13':
                js = [j for j in js if 'AirbornePosition' in j['frames'][0]]
            jobs += js
    if prop == 'C13':
        jobs.append({'kind': 'haversine'})
    if prop == 'C14':
        for k in ([2] if tier == 'quick' else [0, 1, 2, 3]):
            jobs.append({'kind': 'views', 'k': k})
    if prop == 'C15':
        for k in ([2] if tier == 'quick' else [0, 1, 2, 3]):
            jobs.append({'kind': 'prune', 'k': k})
        # "not heard from within T": every frame of an aircraft stamps its record with a clock reading taken while the
        # frame is handled (a re-appearing aircraft is a frame for an untracked address: fresh record, same stamp rule)
        for k in ([1] if tier == 'quick' else [0, 1, 2]):
            jobs += frame_jobs(['C15'], k, tier)
    return jobs


def replay_violation(v):
    """Tracker counterexamples are solver models of (pre-state, frame, receiver): the step is replayed on the real
    crates (checks/step_replay.py) and the verdict re-derived from the native pre/post states.  Roles whose expected
    value depends on libm / get_position results (uninterpreted in the model) cannot be judged natively: they are
    reported with `reproduced: not replayable` instead of being dropped."""
    from checks import step_replay
    if v.get('step') is None:
        v['replay_note'] = v.get('step_error', 'no step recorded for this role')
        return True
    try:
        step_replay.build()
        ok, note = step_replay.judge(v)
    except Exception as e:      # noqa
        v['replay_note'] = 'native step replay failed: %r' % (e,)
        return True
    v['replay_note'] = note
    if ok is None:
        v['replay_note'] = 'not replayable natively: ' + note
        return True
    return ok


def main(prop, tier, extra_jobs=None, finish=True):
    t0 = time.time()
    files, dirs, info = fw.dump_all(['adsb_deku', 'rsadsb_common'])
    jobs = jobs_for(prop, tier) + (extra_jobs or [])
    V.build_replay('debug')
    results = fw.run_jobs('checks.tracker', jobs, files, dirs)
    for f in files:
        try:
            os.remove(f)
        except OSError:
            pass
    cnt = fw.merge_counts(results, ['paths', 'obligations', 'discharged', 'steps', 'solver_s', 'explore_solver_s'])
    samples = []
    for r in results:
        samples += r.get('samples', [])[:1]
    fn_calls = fw.merge_dict_counts(results, 'fn_calls')
    coverage = {
        'states': cnt['paths'], 'transitions': cnt['steps'], 'traces_validated_against_impl': 0,
        'samples': samples[:10] or [{'note': 'no samples'}],
        'obligations': cnt['obligations'], 'discharged': cnt['discharged'],
        'jobs': len(jobs), 'path_classes': fw.merge_dict_counts(results, 'sigs'),
        'functions_encoded': len(fn_calls),
        'mir_function_calls': dict(sorted(fn_calls.items(), key=lambda kv: -kv[1])[:40]),
        'builtins_hit': fw.merge_dict_counts(results, 'builtin_calls'),
        'solver': 'z3 ' + __import__('z3').get_version_string(),
        'solver_s_obligations': round(cnt['solver_s'], 2), 'solver_s_exploration': round(cnt['explore_solver_s'], 2),
        'mir': info,
        'bounds': {'tracked_aircraft_in_pre_state': sorted(set(j.get('k', 0) for j in jobs)), 'steps': 1, 'track_length': 1},
        'explanation': 'symbolic execution of the MIR of Airplanes::action / prune / views from an arbitrary valid tracker '
                       'state; every code path is compared by z3 with a reference model of the step',
    }
    if not finish:
        return results, coverage, t0
    fw.finish(prop, tier, t0, results, coverage, ASSUME, level='model_checking', replay_fn=replay_violation)
