"""Run Kani/CBMC harnesses of /verif/kani (leaf kernels compiled from /repo's working tree via #[path])."""
import os
import re
import subprocess
import time

ROOT = os.path.dirname(os.path.dirname(os.path.abspath(__file__)))
KANI_DIR = os.path.join(ROOT, 'kani')
CACHE = os.environ.get('VERIF_CACHE', os.path.join(ROOT, '.cache'))


def run_harness(name, timeout_s=900):
    """-> dict(harness, status: 'success'|'failure'|'inconclusive', checks, failed, covers_ok, time_s, failed_checks)"""
    env = dict(os.environ)
    env['CARGO_NET_OFFLINE'] = 'true'
    lock = os.path.join(os.environ.get('VERIF_REPO', '/repo'), 'Cargo.lock')
    if os.path.exists(lock):
        try:
            open(os.path.join(KANI_DIR, 'Cargo.lock'), 'w').write(open(lock).read())
        except OSError:
            pass
    t = time.time()
    cmd = ['cargo', 'kani', '--target-dir', os.path.join(CACHE, 'target-kani-' + name), '--harness', name]
    try:
        p = subprocess.run(cmd, cwd=KANI_DIR, env=env, stdout=subprocess.PIPE, stderr=subprocess.STDOUT, text=True,
                           timeout=timeout_s)
        out = p.stdout
    except subprocess.TimeoutExpired as e:
        return {'harness': name, 'status': 'inconclusive', 'reason': 'timeout after %ds' % timeout_s, 'time_s': time.time() - t}
    res = {'harness': name, 'time_s': round(time.time() - t, 1)}
    m = re.search(r'\*\* (\d+) of (\d+) failed', out)
    if m:
        res['failed'] = int(m.group(1))
        res['checks'] = int(m.group(2))
    m = re.search(r'\*\* (\d+) of (\d+) cover properties satisfied', out)
    if m:
        res['covers_ok'] = (m.group(1) == m.group(2))
        res['covers'] = int(m.group(2))
    vt = re.search(r'Verification Time: ([0-9.]+)s', out)
    if vt:
        res['solver_time_s'] = float(vt.group(1))
    if 'VERIFICATION:- SUCCESSFUL' in out:
        res['status'] = 'success'
        if res.get('covers_ok') is False:
            res['status'] = 'inconclusive'
            res['reason'] = 'a cover property (vacuity witness) is unsatisfiable'
    elif 'VERIFICATION:- FAILED' in out:
        fails = re.findall(r'Failed Checks: (.*)', out)
        res['failed_checks'] = fails[:10]
        if any('unwinding assertion' in f for f in fails) or 'Status: ERROR' in out:
            res['status'] = 'inconclusive'
            res['reason'] = 'unwinding assertion / internal error: ' + '; '.join(fails[:3])
        else:
            res['status'] = 'failure'
    else:
        res['status'] = 'inconclusive'
        res['reason'] = 'no verdict: ' + out[-600:]
    return res


def run_many(names, timeout_s=900, jobs=4):
    from concurrent.futures import ThreadPoolExecutor
    with ThreadPoolExecutor(max_workers=jobs) as ex:
        return list(ex.map(lambda n: run_harness(n, timeout_s), names))


def to_results(prop, kres):
    """convert harness results into framework result dicts (violations / inconclusive / counts)"""
    out = []
    for r in kres:
        d = {'paths': 1, 'obligations': r.get('checks', 1), 'discharged': r.get('checks', 1) - r.get('failed', 0),
             'violations': [], 'samples': [{'kani_harness': r['harness'], 'status': r['status'], 'checks': r.get('checks'),
                                            'cover_witnesses': r.get('covers'), 'time_s': r.get('time_s')}]}
        if r['status'] == 'failure':
            d['violations'].append({'property': prop, 'role': 'kani:' + r['harness'], 'witness': None,
                                    'detail': 'Kani harness %s failed: %s' % (r['harness'], '; '.join(r.get('failed_checks', []))),
                                    'predicted': None, 'kani': True})
        elif r['status'] == 'inconclusive':
            d['inconclusive'] = 'Kani harness %s: %s' % (r['harness'], r.get('reason'))
        out.append(d)
    return out
