"""C19: Frame::from_reader over a reader that fragments reads and returns transient Interrupted errors yields the
same frame and checksum as Frame::from_bytes on the same bytes.  The reader's schedule (short-read sizes, positions
of Interrupted results) is enumerated by forking inside the symbolic executor; the frame bytes stay symbolic."""
import os
import sys
import time

import z3

from checks import framework as fw
from checks.framework import explore_from_bytes, Prover, model_bytes, leaf_sig, slice_constraints
from checks.decode_props import value_eq
from mirsym.values import *          # noqa
from mirsym.execu import Executor, ExecError
from mirsym import builtins as _b
from mirsym import deku_bi
from mirsym import validate as V

ASSUME = [
    'deku 0.18.1 Reader and the default read_exact/read_to_end loops are builtin models (validated per path for the '
    'unfragmented reader by the decode checks); the scheduled reader is a builtin: each read() returns Interrupted '
    '(while the budget lasts), or 1..=min(len(buf), remaining) bytes; seek is exact',
    'bounds: frame lengths 7 and 14; at most `events` schedule events (short reads or Interrupted) per decode at any '
    'position of the call sequence; longer fault sequences are outside the claim',
    'purity (repeating / interleaving decodes): the MIR dump contains no static mut / interior-mutable static (syntactic scan)',
]


GOOD_FRAME = '8d40621d58c382d690c8ac2863a7'      # a DF17 squitter with checksum 0 (used by the purity replay)


def purity_job(prog, job):
    """Independence of earlier decodes: every path of Frame::from_bytes (Ok or Err, every buffer length of the job)
    leaves every thread-local cell it touched at its initial (default) value, so the next decode on this thread
    starts from the same global state as the first one.  (`static mut` is excluded by the syntactic scan.)"""
    from mirsym import coll_bi
    res = {'paths': 0, 'violations': [], 'samples': [], 'steps': 0, 'fn_calls': {}, 'builtin_calls': {}, 'sigs': {},
           'schedules': 0, 'obligations': 0, 'discharged': 0}
    L = job['L']
    ex0, bs, leaves = explore_from_bytes(prog, L, job['spec'])
    res['steps'] += ex0.stats['steps']
    P = Prover(base=slice_constraints(job['spec'], bs))
    touched = set()
    for l in leaves:
        res['paths'] += 1
        res['obligations'] += 1
        touched |= {k for k in l.env if str(k).startswith('tls:')}
        left = coll_bi.tls_residue(l.env)
        if not left:
            res['discharged'] += 1
            continue
        P.set_path(l.pc)
        m = P.feasible()
        w = model_bytes(m, bs).hex() if m is not None else None
        res['violations'].append({'property': 'C19', 'role': 'global-state-left-behind:%s' % leaf_sig(l), 'witness': w,
                                  'detail': 'a decode of %d bytes ending in %s leaves thread-local state behind (%s): the next decode on '
                                            'this thread depends on it' % (L, leaf_sig(l), ', '.join('%s=%r' % (k, str(v)[:60]) for k, v in left)),
                                  'replay_kind': 'seq', 'job': job})
    res['samples'].append({'purity': 'every from_bytes path of length %d restores thread-local state' % L, 'thread_locals_touched': sorted(touched)})
    return res


def run_job(prog, job):
    if job.get('kind') == 'purity':
        return purity_job(prog, job)
    L, spec, shorts, intrs = job['L'], job['spec'], job['shorts'], job['intrs']
    res = {'paths': 0, 'violations': [], 'samples': [], 'steps': 0, 'fn_calls': {}, 'builtin_calls': {}, 'sigs': {},
           'schedules': 0}
    ex0, bs, base = explore_from_bytes(prog, L, spec)
    res['steps'] += ex0.stats['steps']
    ex = Executor(prog, _b.B)
    arr = Arr([Int('u8', b) for b in bs])
    rd = deku_bi.sched_cursor(Ref(('V', arr)), shorts, intrs)
    fn = prog.items[prog.find_free_fn('Frame::from_reader')]
    leaves = ex.run(fn, [rd], pc=slice_constraints(spec, bs))
    res['steps'] += ex.stats['steps']
    for k, v in ex.stats['fn_calls'].items():
        res['fn_calls'][k] = res['fn_calls'].get(k, 0) + v
    for k, v in ex.stats['builtin_calls'].items():
        res['builtin_calls'][k] = res['builtin_calls'].get(k, 0) + v
    P = Prover(base=slice_constraints(spec, bs))
    seen_sched = set()
    joints = [z3.And(*l0.pc) if l0.pc else z3.BoolVal(True) for l0 in base]
    for l in leaves:
        res['paths'] += 1
        sched = l.env.get('sched_events', ())
        seen_sched.add(sched)
        P.set_path(l.pc)
        if l.kind == 'error':
            res['inconclusive'] = 'exploration error: %s' % l.msg
            continue
        for l0, joint in zip(base, joints):
            if P.feasible(joint) is None:
                continue
            sig = leaf_sig(l0)
            res['sigs'][sig] = res['sigs'].get(sig, 0) + 1
            if l.kind != 'return' or l0.kind != 'return':
                same = z3.BoolVal(l.kind == l0.kind)
            elif l.value.variant != l0.value.variant:
                same = z3.BoolVal(False)
            elif l.value.variant == 'Ok':
                same = value_eq(l.value.f[0], l0.value.f[0])
            else:
                same = z3.BoolVal(l.value.f[0].variant == l0.value.f[0].variant)
            m = P.prove(z3.Implies(joint, same))
            if m is not None:
                if m == 'unknown':
                    res['inconclusive'] = 'solver unknown'
                    continue
                kinds = sorted(set(e[0] for e in sched))
                role = '%s:differs-under-%s' % (sig, '+'.join(kinds) or 'no-event')
                # classify: does an Interrupted hit the read that follows a seek?
                res['violations'].append({'property': 'C19', 'role': role, 'witness': model_bytes(m, bs).hex(), 'len': L,
                                          'schedule': [list(e) for e in sched], 'job': job,
                                          'detail': 'from_reader under schedule %s returns %s, from_bytes returns %s' % (
                                              list(sched), describe(l, m), describe(l0, m)),
                                          'replay_kind': 'sched',
                                          'replay_request': 'sched %s %s' % (model_bytes(m, bs).hex(), encode_sched(sched))})
    res['schedules'] = len(seen_sched)
    res['obligations'] = P.obligations
    res['discharged'] = P.discharged
    res['solver_s'] = P.solver_s
    if leaves:
        l = leaves[len(leaves) // 2]
        P.set_path(l.pc)
        m = P.feasible()
        if m is not None:
            res['samples'].append({'frame': model_bytes(m, bs).hex(), 'schedule': [list(e) for e in l.env.get('sched_events', ())]})
    if ex.stats['unknown'] or ex0.stats['unknown']:
        res['inconclusive'] = 'solver unknown during exploration'
    return res


def describe(l, m):
    if l.kind != 'return':
        return l.kind
    if l.value.variant == 'Err':
        return 'Err(%s)' % l.value.f[0].variant
    crc = l.value.f[0].f[-1]
    try:
        c = m.eval(to_bv(crc), model_completion=True).as_long()
        return 'Ok(%s, crc=%#x)' % (l.value.f[0].f[0].variant, c)
    except Exception:
        return 'Ok(%s)' % l.value.f[0].f[0].variant


def encode_sched(sched):
    """events as the native replay driver understands them: i<k> = the k-th read() call returns Interrupted,
    s<k>:<n> = the k-th read() call returns n bytes (calls counted from 0, failed calls included)"""
    out = []
    for e in sched:
        if e[0] == 'interrupted':
            out.append('i%d' % e[1])
        else:
            out.append('s%d:%d' % (e[1], e[2]))
    return ','.join(out) or '-'


def class_slices(tier='thorough'):
    sl = _class_slices()
    if tier == 'quick':
        keep = []
        for L, spec in sl:
            txt = ' '.join(spec)
            df = int(spec[0].split('==')[1])
            if df in (17, 18):
                ok = any(('LShR(b[4],3)==%d' % t) in txt for t in ((0, 5, 11, 19, 24, 28, 29, 31) if df == 17 else (11, 24, 2)))
                if 'LShR(b[4],3)==31' in txt and '(b[4]&7)==0' not in txt:
                    ok = False
                if '(b[0]&7)==2' in txt:
                    ok = True
            else:
                ok = df not in (27,)
            if ok:
                keep.append((L, spec))
        return keep
    return sl


def _class_slices():
    """one slice per read/seek pattern class (format x payload class), bytes otherwise symbolic"""
    out = []
    tc = 'z3.LShR(b[4],3)'
    for df in (0, 4, 5, 11):
        out.append((7, ['z3.LShR(b[0],3)==%d' % df]))
    for df in (16, 19, 24, 27):
        out.append((14, ['z3.LShR(b[0],3)==%d' % df]))
    sp = ['z3.Extract(7,2,b[5])!=32', 'z3.Concat(z3.Extract(1,0,b[5]),z3.Extract(7,4,b[6]))!=32',
          'z3.Concat(z3.Extract(3,0,b[6]),z3.Extract(7,6,b[7]))==32', 'z3.Extract(5,0,b[7])==32',
          'z3.Extract(7,2,b[8])==32', 'z3.Concat(z3.Extract(1,0,b[8]),z3.Extract(7,4,b[9]))==32',
          'z3.Concat(z3.Extract(3,0,b[9]),z3.Extract(7,6,b[10]))==32', 'z3.Extract(5,0,b[10])!=32']
    for df in (17, 18):
        base = ['z3.LShR(b[0],3)==%d' % df]
        if df == 17:
            out.append((14, base + ['(b[0]&7)==2', 'b[3]==0x58', 'b[4]==0']))      # reserved capability (id_pat re-read on a 3-bit id)
            base = base + ['(b[0]&7)==5']
        for t in (0, 5, 11, 19, 20, 23, 24, 25, 28, 29, 30):
            out.append((14, base + ['%s==%d' % (tc, t)]))
        for st in (0, 1, 3):
            out.append((14, base + ['%s==31' % tc, '(b[4]&7)==%d' % st]))
        out.append((14, base + ['%s==2' % tc] + sp))
    for df in (20, 21):
        base = ['z3.LShR(b[0],3)==%d' % df]
        for b4 in ('b[4]==0', 'b[4]==0x10', 'b[4]==0x30'):
            out.append((14, base + [b4]))
        out.append((14, base + ['b[4]==0x20'] + sp))
    return out


def main(tier):
    t0 = time.time()
    files, dirs, info = fw.dump_all(['adsb_deku'])
    mir_text = open(files[0]).read()
    statics = [ln for ln in mir_text.split('\n') if ln.startswith('static mut ')]
    jobs = []
    budgets = [(1, 0), (0, 1)] if tier == 'quick' else [(2, 0), (0, 2), (1, 1)]
    for L, spec in class_slices(tier):
        for sh, it in budgets:
            jobs.append({'L': L, 'spec': spec, 'shorts': sh, 'intrs': it})
    # buffers longer than the frame (a short reply at the head of a long buffer, a long frame followed by more bytes):
    # the reader and the slice entry point must agree there too, with and without a fault
    tcq = 'z3.LShR(b[4],3)'
    for L, spec in ((14, ['z3.LShR(b[0],3)==11']), (9, ['z3.LShR(b[0],3)==4']),
                    (16, ['z3.LShR(b[0],3)==17', '(b[0]&7)==5', tcq + '==11']), (15, ['z3.LShR(b[0],3)==20', 'b[4]==0x10'])):
        for sh, it in ([(0, 0), (1, 0)] if tier == 'quick' else [(0, 0), (1, 0), (0, 1), (1, 1)]):
            jobs.append({'L': L, 'spec': spec, 'shorts': sh, 'intrs': it})
    for L in ((1, 6, 7, 13, 14) if tier == 'quick' else range(0, 17)):
        for spec in fw.df_slices(L):
            jobs.append({'kind': 'purity', 'L': L, 'spec': spec})
    V.build_replay('debug')
    V.build_replay('release')
    results = fw.run_jobs('checks.c19', jobs, files, dirs)
    for f in files:
        try:
            os.remove(f)
        except OSError:
            pass
    if statics:
        results.append({'violations': [{'property': 'C19', 'role': 'mutable-static', 'witness': None,
                                        'detail': 'the crate defines mutable statics: %s' % statics[:3]}]})
    cnt = fw.merge_counts(results, ['paths', 'obligations', 'discharged', 'steps', 'solver_s', 'schedules'])
    samples = []
    for r in results:
        samples += r.get('samples', [])[:1]
    fn_calls = fw.merge_dict_counts(results, 'fn_calls')
    coverage = {
        'states': cnt['paths'], 'transitions': cnt['steps'], 'traces_validated_against_impl': 0,
        'samples': samples[:10] or [{'note': 'none'}],
        'obligations': cnt['obligations'], 'discharged': cnt['discharged'],
        'schedules_explored': cnt['schedules'], 'frame_classes': len(class_slices()),
        'event_budgets': [{'short_reads': a, 'interrupts': b} for a, b in budgets],
        'functions_encoded': len(fn_calls), 'mir_function_calls': dict(sorted(fn_calls.items(), key=lambda kv: -kv[1])[:30]),
        'builtins_hit': fw.merge_dict_counts(results, 'builtin_calls'),
        'solver': 'z3 ' + z3.get_version_string(), 'solver_s_obligations': round(cnt['solver_s'], 2), 'mir': info,
        'mutable_statics_in_mir': len(statics),
        'explanation': 'symbolic execution of Frame::from_reader over a fault-scheduling reader; every (decode path, schedule) '
                       'leaf is compared by z3 with the Frame::from_bytes result on the same symbolic bytes',
    }
    fw.finish('C19', tier, t0, results, coverage, ASSUME, level='model_checking', replay_fn=replay_violation)


def replay_seq(v):
    """purity counterexample: decode the witness, then a good frame, in one thread; the good frame must decode as in a
    fresh process"""
    from checks import c20
    w = v.get('witness')
    if w is None:
        return None
    a = c20.cfg_native('std', 'seq %s %s' % (w or '00', GOOD_FRAME))
    b = c20.cfg_native('std', 'decode ' + GOOD_FRAME)
    v['native'] = {'after_witness': a, 'fresh': b}
    return a != b


def replay_violation(v):
    if v.get('replay_kind') == 'seq':
        return replay_seq(v)
    req = v.get('replay_request')
    if not req:
        return None
    ok = True
    for profile in ('debug', 'release'):
        r = V.native([req], profile)[0]
        v.setdefault('native', {})[profile] = r
        ok &= bool(r.get('differs'))
    return ok
