"""C05: CPR global decoding.  Decided here (each sub-claim separately, a timeout is "not decided", never "holds"):
  1. parity logic (bit-vector): equal parities => None, unequal => Some, for both orders, no panic;
  2. range (QF_FP over the code's own term): latitude in [-90, 90], longitude in [-180, 180) for every Some result;
  3. NL table: 58 thresholds extracted from the code's comparisons: strictly increasing, symmetric use of |lat|,
     values 59..1, each within 1e-7 deg of the Annex formula's transition latitude (enclosures by mpmath, comparisons by z3);
  4. zone consistency: a pair whose two latitudes fall in different NL zones must yield no position.
Not decided by this family of technique (stated, outside the claim): accuracy within ~5 m of the true position and
re-encoding to the second report's CPR values (needs the CPR encoder on the sphere: nonlinear real arithmetic with
cos/acos over all positions)."""
import os
import sys
import time

import z3

from checks import framework as fw
from checks import tracker as T
from mirsym.values import *          # noqa
from mirsym.execu import Executor, ExecError, fp_definitions, FP_BY_ATOM
from mirsym import builtins as _b
from mirsym import validate as V

F64 = z3.Float64()
ASSUME = [
    'floating-point comparisons are Boolean atoms during exploration; range queries add the atoms\' definitions back and are decided in QF_FP/QF_BV',
    "Rust's f64 % f64 (C fmod) is encoded as truncated bit-vector remainder of the operands converted to integers; the side "
    'condition (operands integral, |.| < 2^62, divisor non-zero) is discharged by the solver in this check',
    'libm::floor = fp.roundToIntegral(RTN) (exact)',
    'accuracy against the true position (5 m) and re-encoding consistency are outside the claim (not decidable with the installed solvers)',
]


def explore(prog, parity_a=None, parity_b=None):
    sym = T.Sym(prog)
    a = sym.altitude('a', parity_a)
    b = sym.altitude('b', parity_b)
    fn = prog.items[prog.find_free_fn('get_position')]
    ex = Executor(prog, _b.B)
    leaves = ex.run(fn, [Tup((Ref(('V', a)), Ref(('V', b))))], pc=list(sym.assume))
    return sym, a, b, ex, leaves


def run_job(prog, job):
    kind = job['kind']
    res = T.new_res()
    S = prog.src.structs
    if kind == 'parity':
        sym, a, b, ex, leaves = explore(prog)
        T.note(res, ex)
        P = fw.Prover()
        oa = z3.BitVec('a_odd', 1)
        ob_ = z3.BitVec('b_odd', 1)
        for c in leaves:
            res['paths'] += 1
            P.set_path(c.pc)
            if c.kind != 'return':
                P.obligations += 1
                T.viol(res, 'C05', 'get_position-panics', 'get_position panics: %s' % c.msg, P.feasible(), {}, job)
                continue
            v = c.value
            some = opt_discr(v) == z3.BitVecVal(1, 64)
            T.ob(res, P, 'C05', 'parity-rule', some == (oa != ob_), 'a position is returned for equal parities or withheld for unequal ones', None, job)
        res['obligations'] = P.obligations
        res['discharged'] = P.discharged
        res['samples'].append({'sub_claim': 'parity', 'paths': len(leaves)})
        return res
    if kind in ('lat-range', 'lat-far', 'lon-range', 'lon-edge', 'nl-consistency', 'fmod-side'):
        pa, pb = job['order']
        sym, a, b, ex, leaves = explore(prog, pa, pb)
        T.note(res, ex)
        some_leaves = [c for c in leaves if c.kind == 'return' and c.value.variant == 'Some']
        if len(some_leaves) != 1:
            raise ExecError('expected one Some leaf for fixed parities, got %d' % len(some_leaves))
        c = some_leaves[0]
        pos = c.value.f[0]
        lat, lon = to_fp(pos.f[0]), to_fp(pos.f[1])
        s = z3.Solver()
        s.set('timeout', job.get('timeout_ms', 120000))
        for x in c.pc:
            s.add(x)
        res['paths'] = 1
        res['obligations'] = 1
        t = time.time()
        if kind == 'lat-range':
            # the recorded finding K-C05-latitude-range: candidates in (90, 270) are returned unchanged
            bad = z3.And(z3.fpGT(lat, z3.FPVal(90.0, F64)), z3.fpLT(lat, z3.FPVal(270.0, F64)))
            desc = 'latitude in (90, 270)'
            role = 'latitude-range'
        elif kind == 'lat-far':
            # everything else outside [-90, 90] is a different violation (never part of the known finding)
            bad = z3.Or(z3.fpGEQ(lat, z3.FPVal(270.0, F64)), z3.fpLT(lat, z3.FPVal(-90.0, F64)), z3.fpIsNaN(lat))
            desc = 'latitude >= 270, < -90 or NaN'
            role = 'latitude-wrap'
        elif kind in ('lon-range', 'lon-edge'):
            bad = z3.Or(z3.fpGEQ(lon, z3.FPVal(180.0, F64)), z3.fpLT(lon, z3.FPVal(-180.0, F64)), z3.fpIsNaN(lon))
            desc = 'longitude outside [-180, 180)'
            role = 'longitude-range'
        elif kind == 'fmod-side':
            from mirsym.execu import FMOD_OPERANDS
            conds = []
            lim = z3.FPVal(2.0 ** 62, F64)
            for x, y in FMOD_OPERANDS:
                for opnd in (x, y):
                    if integral_by_construction(opnd):
                        continue
                    conds.append(z3.fpEQ(z3.fpRoundToIntegral(z3.RTZ(), opnd), opnd))
                conds.append(z3.fpLT(z3.fpAbs(x), lim))
                conds.append(z3.fpLT(z3.fpAbs(y), lim))
                conds.append(z3.Not(z3.fpIsZero(y)))
            bad = z3.Not(z3.And(*conds)) if conds else z3.BoolVal(False)
            desc = 'operands of % are not integral / in range (encoder side condition)'
            role = 'fmod-side-condition'
        else:
            # the two candidate latitudes: recover them from the latitude term: lat = ite(latest==even, lat_even, lat_odd)
            le, lo = lat_candidates(prog, a, b, list(sym.assume))
            # sufficient condition for "different zone counts": one latitude below a transition latitude, the other not
            T_ = z3.FPVal(job.get('threshold', 10.4704713), F64)
            bad = z3.And(z3.fpLT(z3.fpAbs(le), T_), z3.fpGEQ(z3.fpAbs(lo), T_), z3.fpLEQ(z3.fpAbs(lo), z3.FPVal(90.0, F64)))
            desc = 'the two latitudes lie in different longitude-zone counts but a position is returned'
            role = 'nl-zone-consistency'
        terms = [bad] + ([] if kind == 'nl-consistency' else [lat, lon] + list(c.pc))
        for d in fp_definitions(terms):
            s.add(d)
        s.add(bad)
        if kind == 'lon-edge':
            # bounded sub-claim of the quick tier: the longitude of the latest report is fixed to one end / quarter point
            # of the CPR range (job['lon_latest']), the other longitude is one of LON_EDGE, both latitudes stay fully symbolic
            s.add(z3.BitVec('b_lon', 17) == job['lon_latest'])
            s.add(z3.Or(*[z3.BitVec('a_lon', 17) == c_ for c_ in LON_EDGE]))
        # non-incremental solver objects (push/pop would switch z3 to its much slower incremental core for QF_FP)
        assertions = list(s.assertions())
        r = z3.unknown
        m_hint = None
        if kind in ('nl-consistency', 'lat-range', 'lat-far'):
            # counterexample / witness search in small sub-spaces first (any model is replayed natively; an `unsat`
            # here proves nothing and the full query below still runs)
            zero = lambda n: z3.BitVec(n, 17) == 0     # noqa: E731
            edge = (0, 1, 2, 3, 32767, 32768, 32769, 65535, 65536, 65537, 98303, 98304, 98305, 131068, 131069, 131070, 131071)
            near = lambda n: z3.Or(*[z3.BitVec(n, 17) == c_ for c_ in edge])     # noqa: E731
            hints = ([[zero('b_lat'), zero('a_lon'), zero('b_lon')], [zero('a_lat'), zero('a_lon'), zero('b_lon')]]
                     if kind != 'lat-far' else
                     # values at the ends and quarter points of the CPR range first (wrap-around errors show there)
                     [[near('a_lat'), near('b_lat'), zero('a_lon'), zero('b_lon')], [zero('a_lon'), zero('b_lon')]])
            for hint in hints:
                s1 = z3.Solver()
                s1.set('timeout', 45000)
                for x in assertions:
                    s1.add(x)
                s1.add(*hint)
                r = s1.check()
                if r == z3.sat:
                    m_hint = s1.model()
                    break
        if r != z3.sat:
            s = z3.Solver()
            s.set('timeout', job.get('timeout_ms', 120000))
            for x in assertions:
                s.add(x)
            r = s.check()
        res['solver_s'] = time.time() - t
        if r == z3.unsat:
            res['discharged'] = 1
        elif r == z3.sat:
            m = m_hint if m_hint is not None else s.model()
            w = {n: m.eval(z3.BitVec(n, 17), model_completion=True).as_long() for n in ('a_lat', 'a_lon', 'b_lat', 'b_lon')}
            first = 'o' if pa else 'e'
            second = 'o' if pb else 'e'
            req = 'cpr %s %d %d %s %d %d' % (first, w['a_lat'], w['a_lon'], second, w['b_lat'], w['b_lon'])
            res['violations'].append({'property': 'C05', 'role': '%s:%s%s' % (role, first, second), 'witness': None, 'detail': desc + ' for ' + req,
                                      'cpr': w, 'replay_kind': 'cpr', 'replay_request': req, 'expect': 'lon-range' if kind == 'lon-edge' else kind, 'job': job,
                                      'model_lat': str(m.eval(lat, model_completion=True)), 'model_lon': str(m.eval(lon, model_completion=True))})
        else:
            msg = '%s (%s order %s%s): solver gave no verdict in %ds' % (desc, kind, 'o' if pa else 'e', 'o' if pb else 'e', job.get('timeout_ms', 120000) // 1000)
            if kind in ('lat-far', 'fmod-side', 'lon-range'):
                # claims of the property: no verdict is no pass
                res['inconclusive'] = msg
            else:
                # witness searches for the recorded findings, and the quick tier's bounded counterexample search for the
                # longitude range (lon-edge; the range itself is a claim of the thorough tier only): harmless when they time out
                res['undecided'] = [msg]
        res['samples'].append({'sub_claim': kind, 'order': job['order'], 'verdict': str(r), 'solver_s': round(res['solver_s'], 1)})
        return res
    if kind == 'nl-table':
        return job_nl_table(prog, job, res)
    raise ExecError('unknown job')


LON_EDGE = (0, 1, 32768, 65535, 65536, 65537, 98304, 131071)


def integral_by_construction(t):
    """floor/ceil results, integer-to-float conversions and integral constants are integral; if-then-else of such"""
    k = t.decl().kind()
    if k == z3.Z3_OP_FPA_ROUND_TO_INTEGRAL:
        return True
    if z3.is_fp_value(t):
        v = V.fp_to_float(t)
        return v == int(v)
    if k == z3.Z3_OP_FPA_TO_FP_UNSIGNED:
        return True
    if k == z3.Z3_OP_FPA_TO_FP and t.num_args() == 2 and z3.is_bv(t.arg(1)):
        return True
    if k == z3.Z3_OP_ITE:
        return integral_by_construction(t.arg(1)) and integral_by_construction(t.arg(2))
    return False


def lat_candidates(prog, a, b, assume):
    """lat_even / lat_odd of get_position, re-derived by running the function on both orders of the same reports is
    not needed: the terms are obtained from the code by executing it with the latest frame forced to each parity."""
    # run with (a=even, b=odd): latest is odd -> latitude term is lat_odd; swap roles for lat_even
    S = prog.src.structs
    fn = prog.items[prog.find_free_fn('get_position')]
    out = {}
    for name, args in (('odd', (a, b)), ('even', (b, a))):
        ex = Executor(prog, _b.B)
        ls = ex.run(fn, [Tup((Ref(('V', args[0])), Ref(('V', args[1]))))], pc=list(assume))
        ls = [c for c in ls if c.kind == 'return' and c.value.variant == 'Some']
        if len(ls) != 1:
            raise ExecError('lat_candidates: unexpected leaves')
        out[name] = to_fp(ls[0].value.f[0].f[0])
    return out['even'], out['odd']


def nl_term(prog, lat):
    fn = prog.items[prog.find_free_fn('cpr_nl')]
    ex = Executor(prog, _b.B)
    ls = ex.run(fn, [Flt('f64', lat)])
    ls = [c for c in ls if c.kind == 'return']
    if len(ls) != 1:
        raise ExecError('cpr_nl did not merge into one value')
    return to_bv(ls[0].value)


def job_nl_table(prog, job, res):
    import mpmath
    mpmath.mp.dps = 50
    lat = z3.FP('nl_lat', F64)
    fn = prog.items[prog.find_free_fn('cpr_nl')]
    ex = Executor(prog, _b.B)
    before = set(FP_BY_ATOM)
    ls = ex.run(fn, [Flt('f64', lat)])
    T.note(res, ex)
    ls = [c for c in ls if c.kind == 'return']
    res['paths'] = len(ls)
    if len(ls) != 1:
        raise ExecError('cpr_nl did not merge into one value')
    val = to_bv(ls[0].value)
    # thresholds = constants of the comparisons `x < c` created while executing cpr_nl
    thr = []
    for nm, cmp_ in FP_BY_ATOM.items():
        if nm in before:
            continue
        if cmp_.decl().kind() == z3.Z3_OP_FPA_LT and z3.is_fp_value(cmp_.arg(1)):
            thr.append(V.fp_to_float(cmp_.arg(1)))
    thr = sorted(set(t for t in thr if t != 0.0))       # `lat < 0.0` is the sign normalisation, not a threshold
    ob = 0
    ok = 0

    def check(cond, role, detail):
        nonlocal ob, ok
        ob += 1
        if cond:
            ok += 1
        else:
            res['violations'].append({'property': 'C05', 'role': 'nl-table:' + role, 'witness': None, 'detail': detail, 'job': job})
    check(len(thr) == 58, 'count', 'expected 58 transition latitudes, the code compares against %d constants' % len(thr))
    # reference transition latitudes: NL = n for lat below acos(sqrt((1-cos(pi/30))/(1-cos(2pi/n)))), n = 59..2
    ref = []
    for n in range(59, 1, -1):
        x = mpmath.sqrt((1 - mpmath.cos(mpmath.pi / 30)) / (1 - mpmath.cos(2 * mpmath.pi / n)))
        ref.append((n, mpmath.degrees(mpmath.acos(x))))
    # the solver decides the comparisons between the code's constants and rational enclosures of the reference
    s = z3.Solver()
    for i, t in enumerate(thr[:58]):
        n, r = ref[i] if i < len(ref) else (None, None)
        if r is None:
            break
        lo = z3.RealVal(mpmath.nstr(r - mpmath.mpf('1e-7'), 30))
        hi = z3.RealVal(mpmath.nstr(r + mpmath.mpf('1e-7'), 30))
        tv = z3.RealVal(repr(t))
        s.push()
        s.add(z3.Not(z3.And(tv > lo, tv < hi)))
        check(s.check() == z3.unsat, 'threshold-%d' % n, 'transition latitude for NL=%d is %r, the Annex formula gives %s' % (n, t, mpmath.nstr(r, 12)))
        s.pop()
    # the function value: for |lat| in (thr[i-1], thr[i]) the result is 59-i; symmetric; 1 above the last threshold
    P = fw.Prover(timeout_ms=60000)
    P.set_path([z3.Not(z3.fpIsNaN(lat))])
    alat = z3.fpAbs(lat)
    defs = fp_definitions([val])
    P.set_path([z3.Not(z3.fpIsNaN(lat))] + defs)
    prev = None
    for i, t in enumerate(thr):
        n = 59 - i
        cond = z3.fpLT(alat, z3.FPVal(t, F64))
        if prev is not None:
            cond = z3.And(cond, z3.fpGEQ(alat, z3.FPVal(prev, F64)))
        m = P.prove(z3.Implies(cond, val == z3.BitVecVal(n, 64)))
        ob += 1
        if m is None:
            ok += 1
        elif m == 'unknown':
            res.setdefault('undecided', []).append('NL value in zone %d' % n)
        else:
            res['violations'].append({'property': 'C05', 'role': 'nl-table:value-%d' % n, 'witness': None, 'job': job,
                                      'detail': 'cpr_nl(%s) is not %d' % (m.eval(lat, model_completion=True), n)})
        prev = t
    m = P.prove(z3.Implies(z3.fpGEQ(alat, z3.FPVal(thr[-1], F64)), val == z3.BitVecVal(1, 64)))
    ob += 1
    if m is None:
        ok += 1
    else:
        res['violations'].append({'property': 'C05', 'role': 'nl-table:value-1', 'witness': None, 'job': job, 'detail': 'cpr_nl above the last threshold is not 1'})
    res['obligations'] = ob
    res['discharged'] = ok
    res['samples'].append({'sub_claim': 'nl-table', 'thresholds': thr[:3] + ['...'] + thr[-2:], 'count': len(thr)})
    return res


def nl_ref(lat):
    import math
    lat = abs(lat)
    if lat >= 87.0:
        return 1
    if lat == 0:
        return 59
    x = 1 - (1 - math.cos(math.pi / 30)) / (math.cos(math.radians(lat)) ** 2)
    return int(math.floor(2 * math.pi / math.acos(x)))


def replay(v):
    req = v.get('replay_request')
    if not req:
        return True
    ok = True
    for profile in ('debug', 'release'):
        r = V.native([req], profile)[0]
        v.setdefault('native', {})[profile] = r
        if v.get('expect') == 'lat-range':
            ok &= bool(r.get('some')) and (90.0 < r.get('lat', 0) < 270.0)
        elif v.get('expect') == 'lat-far':
            ok &= bool(r.get('some')) and not (-90.0 <= r.get('lat', 0) < 270.0)
        elif v.get('expect') == 'lon-range':
            ok &= bool(r.get('some')) and not (-180.0 <= r.get('lon', 0) < 180.0)
        elif v.get('expect') == 'nl-consistency':
            # the other order gives the other candidate latitude: both must be Some and lie in different NL zones
            parts = req.split()
            req2 = 'cpr %s %s %s %s %s %s' % (parts[4], parts[5], parts[6], parts[1], parts[2], parts[3])
            r2 = V.native([req2], profile)[0]
            v['native'][profile + '_swapped'] = r2
            ok &= bool(r.get('some')) and bool(r2.get('some')) and nl_ref(r['lat']) != nl_ref(r2['lat'])
        else:
            ok &= True
    return ok


def main(tier):
    t0 = time.time()
    files, dirs, info = fw.dump_all(['adsb_deku'])
    to = 120000 if tier == 'quick' else 1800000
    jobs = [{'kind': 'parity'}, {'kind': 'nl-table'}]
    kinds = ('lat-range', 'lat-far', 'nl-consistency') if tier == 'quick' else ('lat-range', 'lat-far', 'nl-consistency', 'fmod-side', 'lon-range')
    for order in ((0, 1), (1, 0)):
        for k in kinds:
            jobs.append({'kind': k, 'order': list(order), 'timeout_ms': to})
    if tier == 'quick':
        # longitude range on the sub-space "both lon_cpr at an end / quarter point of the range" (the full-range proof is thorough only)
        for order in ((0, 1), (1, 0)):
            for v in LON_EDGE:
                jobs.append({'kind': 'lon-edge', 'order': list(order), 'lon_latest': v, 'timeout_ms': 60000})
    V.build_replay('debug')
    V.build_replay('release')
    results = fw.run_jobs('checks.c05', jobs, files, dirs)
    for f in files:
        try:
            os.remove(f)
        except OSError:
            pass
    cnt = fw.merge_counts(results, ['paths', 'obligations', 'discharged', 'steps', 'solver_s'])
    undec = []
    samples = []
    for r in results:
        undec += r.get('undecided', [])
        samples += r.get('samples', [])
    fn_calls = fw.merge_dict_counts(results, 'fn_calls')
    coverage = {
        'states': cnt['paths'], 'transitions': max(1, cnt['steps']), 'traces_validated_against_impl': 0, 'samples': samples[:12] or [{'note': 'none'}],
        'obligations': cnt['obligations'], 'discharged': cnt['discharged'],
        'undecided_sub_claims': undec,
        'functions_encoded': len(fn_calls), 'mir_function_calls': fn_calls,
        'builtins_hit': fw.merge_dict_counts(results, 'builtin_calls'),
        'solver': 'z3 ' + z3.get_version_string(), 'solver_s_obligations': round(cnt['solver_s'], 1), 'mir': info,
        'bounds': {'cpr_values': 'all four 17-bit values symbolic', 'orders': ['even,odd', 'odd,even'], 'solver_cap_s_per_query': to // 1000,
                   'lon_edge_search': ('quick tier only: longitude in [-180, 180) searched for counterexamples with the latest lon_cpr fixed to each of %s, the other '
                                       'lon_cpr any of these, latitudes symbolic, 60 s per query; bug hunting (timeouts are undecided_sub_claims, no claim)' % (LON_EDGE,))
                   if tier == 'quick' else 'not used (the thorough tier decides the longitude range for all inputs)'},
        'explanation': 'get_position / cpr_nl are executed symbolically (MIR), the resulting closed-form f64 terms are queried in QF_FP; '
                       'sub-claims the solver does not settle within the cap are listed under undecided_sub_claims and are not part of the verdict',
    }
    for u in undec:
        print('UNDECIDED (not part of the verdict): ' + u)
    fw.finish('C05', tier, t0, results, coverage, ASSUME, level='model_checking', replay_fn=replay)
