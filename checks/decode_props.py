"""Obligations over the leaves of Frame::from_bytes for the decode-level properties
(C02, C03-window, C04, C06, C08, C09, C10).  Executed inside pool workers (framework.run_jobs)."""
import z3

from checks.framework import (explore_from_bytes, Prover, model_bytes, leaf_sig, fbits, frame_bv, zx,
                              slice_constraints)
from checks import oracles as O
from mirsym.values import *          # noqa
from mirsym.execu import Executor, ExecError
from mirsym import builtins as _b

SHORT = {0, 4, 5, 11}
LONG = set(range(16, 22)) | set(range(24, 32))
VARIANT_DF = {
    'ShortAirAirSurveillance': [0], 'SurveillanceAltitudeReply': [4], 'SurveillanceIdentityReply': [5],
    'AllCallReply': [11], 'LongAirAir': [16], 'ADSB': [17], 'TisB': [18],
    'ExtendedQuitterMilitaryApplication': [19], 'CommBAltitudeReply': [20], 'CommBIdentityReply': [21],
    'ModeSExtendedSquitter': list(range(24, 32)),
}


class Acc:
    """Field access by *name* (names come from the Rust sources, so a reordering of fields is followed)."""

    def __init__(self, prog):
        self.src = prog.src

    def f(self, v, name):
        if isinstance(v, Struct):
            names = self.src.structs.get(v.ty)
            if names is None or name not in names:
                raise ExecError('no field %s in struct %s' % (name, v.ty))
            return v.f[names.index(name)]
        if isinstance(v, Enum):
            names = self.src.vfields.get((v.ty, v.variant))
            if names is None or name not in names:
                raise ExecError('no field %s in %s::%s' % (name, v.ty, v.variant))
            return v.f[names.index(name)]
        raise ExecError('field %s of %r' % (name, v))


def enum_is(prog, e, variant):
    """z3 Bool / python bool: is enum value e the given variant?"""
    if e.variant is not None:
        return e.variant == variant
    d = prog.src.enums[e.ty][variant]
    return e.discr == z3.BitVecVal(d, 64)


def enum_id_claim(prog, e, idmap, bits, payload_variant=None):
    """claim: e is the variant that `idmap` (variant -> id or list of ids) assigns to the value of `bits`."""
    w = bits.size()
    alts = []
    for var, ids in idmap.items():
        if not isinstance(ids, (list, tuple, range)):
            ids = [ids]
        isv = enum_is(prog, e, var)
        if isv is False:
            continue
        inr = z3.Or(*[bits == z3.BitVecVal(i, w) for i in ids])
        alts.append(inr if isv is True else z3.And(isv, inr))
    if not alts:
        return z3.BoolVal(False)
    return z3.Or(*alts)


def bv_of(x, w=None):
    """raw bits of an Int / bool value as z3 bit-vector (optionally zero-extended / truncated to w)"""
    if isinstance(x, Int):
        v = to_bv(x)
    elif isinstance(x, bool):
        v = z3.BitVecVal(1 if x else 0, 1)
    elif isinstance(x, z3.BoolRef):
        v = z3.If(x, z3.BitVecVal(1, 1), z3.BitVecVal(0, 1))
    else:
        raise ExecError('bv_of %r' % (x,))
    if w is not None:
        if v.size() < w:
            v = z3.ZeroExt(w - v.size(), v)
        elif v.size() > w:
            v = z3.Extract(w - 1, 0, v)
    return v


def eq_bits(x, bits):
    """decoded integer value x equals the unsigned value of `bits` (compared at x's width, and x has no
    higher bits set)"""
    v = bv_of(x)
    w = max(v.size(), bits.size())
    return zx(v, w) == zx(bits, w)


def bytes_eq(arr, bits):
    """[u8; N] value equals the N*8 `bits`"""
    v = z3.Concat(*[to_bv(e) for e in arr.e]) if len(arr.e) > 1 else to_bv(arr.e[0])
    return v == bits


# ======================================================================================= job runner
def run_job(prog, job):
    L = job['L']
    spec = job['spec']
    props = job['props']
    ex, bs, leaves = explore_from_bytes(prog, L, spec)
    P = Prover(base=slice_constraints(spec, bs))
    A = Acc(prog)
    res = {'paths': len(leaves), 'violations': [], 'sigs': {}, 'samples': [], 'steps': ex.stats['steps'],
           'explore_solver_s': ex.stats['solver_s'], 'explore_checks': ex.stats['solver_checks'],
           'fn_calls': dict(ex.stats['fn_calls']), 'builtin_calls': dict(ex.stats['builtin_calls']),
           'unknown': ex.stats['unknown']}
    ctx = {'prog': prog, 'L': L, 'bs': bs, 'A': A, 'P': P, 'job': job, 'ex': ex, 'res': res, 'spec': spec,
           'leaves': leaves}
    for l in leaves:
        sig = leaf_sig(l)
        res['sigs'][sig] = res['sigs'].get(sig, 0) + 1
        P.set_path(l.pc)
        ctx['cur_leaf'] = l
        for p in props:
            HANDLERS[p](ctx, l, sig)
    ctx['cur_leaf'] = None
    if len(res['samples']) < 2 and leaves:
        for l in leaves[:2]:
            m = P.feasible() if False else None
    # a witness frame for a few paths, to show what was explored
    for l in leaves[:3]:
        P.set_path(l.pc)
        m = P.feasible()
        if m is not None:
            res['samples'].append({'path': leaf_sig(l), 'witness_frame': model_bytes(m, bs).hex(), 'len': L})
    for p in props:
        fin = FINALIZERS.get(p)
        if fin:
            fin(ctx)
    res['obligations'] = P.obligations
    res['discharged'] = P.discharged
    res['solver_s'] = P.solver_s
    res['timeouts'] = P.timeouts
    if P.timeouts:
        res['inconclusive'] = '%d solver timeouts' % P.timeouts
    return res


def violation(ctx, prop, role, model, detail, extra=None):
    bs = ctx['bs']
    if not (extra and extra.get('known_id')) and model is not None and model != 'unknown' and ctx.get('cur_leaf') is not None:
        # a path-level violation reported without going through obligation(): if known findings with an input class
        # apply, prefer a witness outside every class (a different violation); only if the whole path lies inside
        # the classes is it attributed to the known finding
        ks = known_excuses(ctx, prop, role)
        if ks:
            P = ctx['P']
            terms = [excuse_term(ctx, k) for k in ks]
            m2 = P.feasible(z3.Not(z3.Or(*terms)))
            if m2 is not None:
                model = m2
            else:
                for k, t in zip(ks, terms):
                    if z3.is_true(model.eval(t, model_completion=True)):
                        extra = dict(extra or {}, known_id=k.get('id'))
                        break
    w = model_bytes(model, bs).hex() if model is not None and model != 'unknown' else None
    v = {'property': prop, 'role': role, 'witness': w, 'len': ctx['L'], 'detail': detail, 'job': ctx['job']}
    if extra:
        v.update(extra)
    if model == 'unknown':
        ctx['res']['inconclusive'] = 'solver returned unknown on role ' + role
        return
    # what the encoder says the real build returns on this witness (confirmed natively by the driver)
    l = ctx.get('cur_leaf')
    if l is not None and model is not None:
        from mirsym import validate as V
        if l.kind == 'return':
            if l.value.variant == 'Ok':
                v['predicted'] = {'ok': True, 'tree': V.value_tree(l.value.f[0], model, ctx['prog'])}
            else:
                v['predicted'] = {'ok': False, 'err': l.value.f[0].variant}
        else:
            v['predicted'] = {'panic': True}
    ctx['res']['violations'].append(v)


def known_excuses(ctx, prop, role):
    """Known findings (status 'known') of this property that carry an input-class predicate and whose role
    pattern matches."""
    import fnmatch
    from checks import framework as fw
    out = []
    for k in fw.load_known():
        props = k.get('property')
        props = props if isinstance(props, list) else [props]
        if k.get('status') != 'known' or prop not in props or not k.get('excuse'):
            continue
        if fnmatch.fnmatchcase(role, k.get('role', '*')):
            out.append(k)
    return out


def excuse_term(ctx, k):
    bs, L = ctx['bs'], ctx['L']
    if L == 0:
        return z3.BoolVal(False)
    env = {'z3': z3, 'b': bs, 'L': L, 'df': z3.LShR(bs[0], 3), 'ca': bs[0] & 7}
    need = k.get('min_len', 1)
    if L < need:
        return z3.BoolVal(False)
    if L > 4:
        env['tc'] = z3.LShR(bs[4], 3)
        env['st'] = bs[4] & 7
    try:
        return eval(k['excuse'], env)
    except (NameError, IndexError):
        return z3.BoolVal(False)


def obligation(ctx, prop, role, claim, detail, extra_fn=None):
    """Discharge `claim` on the current path.  A counterexample is reported under `role`; if known findings with an
    input-class excuse apply, the solver is asked again for a counterexample outside those classes, so that a
    different violation of the same role is still reported."""
    P = ctx['P']
    m = P.prove(claim)
    if m is None:
        return True
    ks = known_excuses(ctx, prop, role)
    if ks and m != 'unknown':
        terms = [excuse_term(ctx, k) for k in ks]
        m2 = P.prove(z3.Or(claim, *terms))
        P.obligations -= 1
        if m2 is None:
            P.discharged -= 1
            P.excused = getattr(P, 'excused', 0) + 1
            # every counterexample lies inside a known input class: attribute it
            for k, t in zip(ks, terms):
                if z3.is_true(m.eval(t, model_completion=True)):
                    violation(ctx, prop, role, m, detail, {'known_id': k.get('id')})
                    return False
            violation(ctx, prop, role, m, detail)
            return False
        violation(ctx, prop, role, m2, detail, extra_fn(m2) if (extra_fn and m2 != 'unknown') else None)
        return False
    violation(ctx, prop, role, m, detail, extra_fn(m) if (extra_fn and m != 'unknown') else None)
    return False


def ok_frame(l):
    if l.kind == 'return' and l.value.variant == 'Ok':
        fr = l.value.f[0]
        return fr
    return None


def required_len(dfv):
    return 7 if dfv in SHORT else 14


# ======================================================================================= C02
def c02(ctx, l, sig):
    prog, L, bs, P, A = ctx['prog'], ctx['L'], ctx['bs'], ctx['P'], ctx['A']
    if l.kind != 'return':
        return       # totality is C01's subject
    fr = ok_frame(l)
    if L == 0:
        if fr is not None:
            violation(ctx, 'C02', 'len0:accepted', P.feasible(), 'empty buffer accepted')
        return
    dfbits = z3.LShR(bs[0], 3)
    if fr is not None:
        df = A.f(fr, 'df')
        ids = VARIANT_DF.get(df.variant)
        # (1) variant <-> format code
        claim = z3.Or(*[dfbits == i for i in ids]) if ids else z3.BoolVal(False)
        obligation(ctx, 'C02', '%s:format-table' % sig, claim, 'variant %s decoded from a different format code' % df.variant)
        # (2) length discipline
        need = 7 if ids and ids[0] in SHORT else 14
        if L < need:
            violation(ctx, 'C02', '%s:accepted-with-len<%d' % (df.variant, need), P.feasible(),
                      '%d-byte buffer accepted as %s (needs %d bytes)' % (L, df.variant, need))
        # (4b) accepted operational status obeys the version 0-2 layout
        if df.variant in ('ADSB', 'TisB') and L >= 14:
            cond = opstatus_reject_cond(bs)
            obligation(ctx, 'C02', '%s:opstatus-accepted-outside-layout' % sig, z3.Not(cond),
                       'operational status with reserved bits / version outside the v0-2 layout was accepted')
    else:
        # (4) only other rejections
        conds = []
        # unsupported format
        unsupported = z3.Or(*[dfbits == i for i in (1, 2, 3, 6, 7, 8, 9, 10, 12, 13, 14, 15, 22, 23)])
        short_ok = z3.And(z3.Or(*[dfbits == i for i in SHORT]), z3.BoolVal(L >= 7))
        long_ok = z3.And(z3.Or(*[dfbits == i for i in sorted(LONG)]), z3.BoolVal(L >= 14))
        too_short = z3.Not(z3.Or(short_ok, long_ok))
        allowed = z3.Or(unsupported, too_short)
        if L >= 14:
            allowed = z3.Or(allowed, opstatus_reject_cond(bs))
        obligation(ctx, 'C02', '%s:unexpected-reject' % sig, allowed,
                   'supported format with enough bytes rejected (%s)' % sig)


def opstatus_reject_cond(bs):
    """DF17/18, type 31, subtype 0/1 and (reserved bits != 0 or version > 2) -- DO-260B layout."""
    df = fbits(bs, 1, 5)
    tc = fbits(bs, 33, 37)
    st = fbits(bs, 38, 40)
    me = lambda a, b: fbits(bs, 32 + a, 32 + b)      # noqa: E731
    ver_bad = z3.UGT(me(41, 43), 2)
    air = z3.And(st == 0, z3.Or(me(9, 10) != 0, me(13, 14) != 0, me(25, 26) != 0, ver_bad))
    sur = z3.And(st == 1, z3.Or(me(9, 10) != 0, me(25, 26) != 0, ver_bad))
    return z3.And(z3.Or(df == 17, df == 18), tc == 31, z3.Or(air, sur))


def value_eq(a, b):
    """structural equality of two decoded values as a z3 Bool (False on shape mismatch)"""
    if type(a) is not type(b):
        if isinstance(a, (bool, z3.BoolRef)) and isinstance(b, (bool, z3.BoolRef)):
            return to_z3bool(a) == to_z3bool(b)
        return z3.BoolVal(False)
    if isinstance(a, Int):
        return to_bv(a) == to_bv(b)
    if isinstance(a, (bool, z3.BoolRef)):
        return to_z3bool(a) == to_z3bool(b)
    if isinstance(a, Flt):
        return to_fp(a) == to_fp(b)
    if isinstance(a, (Struct, Tup)):
        if len(a.f) != len(b.f):
            return z3.BoolVal(False)
        return z3.And(*[value_eq(x, y) for x, y in zip(a.f, b.f)]) if a.f else z3.BoolVal(True)
    if isinstance(a, Enum):
        if a.ty == 'Option' and b.ty == 'Option' and (a.variant is None or b.variant is None):
            da, db = opt_discr(a), opt_discr(b)
            if a.f and b.f:
                return z3.And(da == db, z3.Implies(da == z3.BitVecVal(1, 64), value_eq(a.f[0], b.f[0])))
            return z3.And(da == db, da == z3.BitVecVal(0, 64)) if (a.f or b.f) else da == db
        if a.variant is None or b.variant is None:
            da, db = enum_discr_bv(a), enum_discr_bv(b)
            return da == db
        if a.variant != b.variant or len(a.f) != len(b.f):
            return z3.BoolVal(False)
        return z3.And(*[value_eq(x, y) for x, y in zip(a.f, b.f)]) if a.f else z3.BoolVal(True)
    if isinstance(a, (Arr, Vec)):
        if len(a.e) != len(b.e):
            return z3.BoolVal(False)
        return z3.And(*[value_eq(x, y) for x, y in zip(a.e, b.e)]) if a.e else z3.BoolVal(True)
    if isinstance(a, RString):
        ca, cb = _b.string_chars(a), _b.string_chars(b)
        if ca is None or cb is None or len(ca) != len(cb):
            return z3.BoolVal(False)
        return z3.And(*[zx(to_bv(x), 32) == zx(to_bv(y), 32) for x, y in zip(ca, cb)]) if ca else z3.BoolVal(True)
    if isinstance(a, Opaque):
        return z3.BoolVal(True)
    raise ExecError('value_eq on %r' % (a,))


def c02_final(ctx):
    """(3) trailing bytes never matter: compare with the exploration at exactly the required length."""
    prog, L, bs, P = ctx['prog'], ctx['L'], ctx['bs'], ctx['P']
    job = ctx['job']
    base = job.get('base_len')
    if not base or base >= L:
        return
    ex0, bs0, leaves0 = explore_from_bytes(prog, base, ctx['spec'])
    ctx['res']['paths_base'] = len(leaves0)
    for l in ctx['leaves']:
        P.set_path(l.pc)
        ctx['cur_leaf'] = l
        for l0 in leaves0:
            joint = z3.And(*l0.pc) if l0.pc else z3.BoolVal(True)
            if P.feasible(joint) is None:
                continue
            if l.kind != 'return' or l0.kind != 'return':
                same = z3.BoolVal(l.kind == l0.kind)
            elif l.value.variant != l0.value.variant:
                same = z3.BoolVal(False)
            elif l.value.variant == 'Ok':
                same = value_eq(l.value.f[0], l0.value.f[0])
            else:
                same = z3.BoolVal(l.value.f[0].variant == l0.value.f[0].variant)
            obligation(ctx, 'C02', '%s:trailing-bytes-matter' % leaf_sig(l0), z3.Implies(joint, same),
                       'result of the %d-byte buffer differs from the result of its first %d bytes' % (L, base))


# ======================================================================================= C03 (window)
def c03(ctx, l, sig):
    prog, L, bs, P, A = ctx['prog'], ctx['L'], ctx['bs'], ctx['P'], ctx['A']
    fr = ok_frame(l)
    if fr is None:
        return
    df = A.f(fr, 'df')
    ids = VARIANT_DF.get(df.variant)
    need = 7 if ids and ids[0] in SHORT else 14
    if L < need:
        return      # C02's subject
    crc = A.f(fr, 'crc')
    ref = checksum_term(ctx, need)
    obligation(ctx, 'C03', '%s:window' % sig, to_bv(crc) == ref,
               'Frame.crc differs from modes_checksum over exactly the first %d bytes' % need)


def checksum_term(ctx, n):
    """modes_checksum (the MIR function itself) applied to the first n bytes of the buffer."""
    key = ('cks', n)
    if key in ctx:
        return ctx[key]
    prog, bs = ctx['prog'], ctx['bs']
    ex = Executor(prog, _b.B)
    arr = Arr([Int('u8', b) for b in bs[:n]])
    fn = prog.items[prog.find_free_fn('modes_checksum')]
    leaves = ex.run(fn, [Ref(('V', arr)), Int('usize', n * 8)])
    if len(leaves) != 1 or leaves[0].kind != 'return' or leaves[0].value.variant != 'Ok':
        raise ExecError('modes_checksum on %d bytes did not produce a single Ok leaf: %r' % (n, leaves))
    t = to_bv(leaves[0].value.f[0])
    ctx[key] = t
    return t


# ======================================================================================= C04
CAP_IDS = {'AG_UNCERTAIN': 0, 'Reserved': [1, 2, 3], 'AG_GROUND': 4, 'AG_AIRBORNE': 5, 'AG_UNCERTAIN2': 6,
           'AG_UNCERTAIN3': 7}
CFT_IDS = {'ADSB_ES_NT': 0, 'ADSB_ES_NT_ALT': 1, 'TISB_FINE': 2, 'TISB_COARSE': 3, 'TISB_MANAGE': 4,
           'TISB_ADSB_RELAY': 5, 'TISB_ADSB': 6, 'Reserved': 7}
FS_IDS = {'NoAlertNoSPIAirborne': 0, 'NoAlertNoSPIOnGround': 1, 'AlertNoSPIAirborne': 2, 'AlertNoSPIOnGround': 3,
          'AlertSPIAirborneGround': 4, 'NoAlertSPIAirborneGround': 5, 'Reserved': 6, 'NotAssigned': 7}
DR_IDS = {'None': 0, 'RequestSendCommB': 1, 'CommBBroadcastMsg1': 4, 'CommBBroadcastMsg2': 5,
          'Unknown': [i for i in range(32) if i not in (0, 1, 4, 5)]}
UMT_IDS = {'NoInformation': 0, 'CommB': 1, 'CommC': 2, 'CommD': 3}


def icao_claim(icao, bits24):
    return bytes_eq(icao.f[0], bits24)


def check_field(ctx, prop, l, role, claim, detail):
    obligation(ctx, prop, role, claim, detail)


def c04(ctx, l, sig):
    prog, L, bs, P, A = ctx['prog'], ctx['L'], ctx['bs'], ctx['P'], ctx['A']
    fr = ok_frame(l)
    if fr is None:
        return
    df = A.f(fr, 'df')
    v = df.variant
    ids = VARIANT_DF.get(v)
    need = 7 if ids and ids[0] in SHORT else 14
    if L < need:
        return
    F = bs[:need]
    last24 = fbits(F, need * 8 - 23, need * 8)
    aa = fbits(F, 9, 32)

    def cf(role, claim, detail):
        check_field(ctx, 'C04', l, '%s:%s' % (sig, role), claim, detail)

    def cap_claim(cap):
        c = enum_id_claim(prog, cap, CAP_IDS, fbits(F, 6, 8))
        if cap.variant == 'Reserved':
            c = z3.And(c, eq_bits(cap.f[0], fbits(F, 6, 8)))
        return c

    def fs_dr_um(fs, dr, um):
        cf('FS', enum_id_claim(prog, fs, FS_IDS, fbits(F, 6, 8)), 'flight status differs from bits 6-8')
        c = enum_id_claim(prog, dr, DR_IDS, fbits(F, 9, 13))
        if dr.variant == 'Unknown':
            c = z3.And(c, eq_bits(dr.f[0], fbits(F, 9, 13)))
        cf('DR', c, 'downlink request differs from bits 9-13')
        cf('UM.iis', eq_bits(A.f(um, 'iis'), fbits(F, 14, 17)), 'IIS differs from bits 14-17')
        cf('UM.ids', enum_id_claim(prog, A.f(um, 'ids'), UMT_IDS, fbits(F, 18, 19)), 'IDS differs from bits 18-19')

    if v == 'AllCallReply':
        cf('capability', cap_claim(A.f(df, 'capability')), 'capability differs from bits 6-8')
        cf('address', icao_claim(A.f(df, 'icao'), aa), 'announced address differs from bits 9-32')
        cf('trailing', icao_claim(A.f(df, 'p_icao'), last24), 'PI differs from the last 24 bits')
    elif v == 'ADSB':
        ad = df.f[0]
        cf('capability', cap_claim(A.f(ad, 'capability')), 'capability differs from bits 6-8')
        cf('address', icao_claim(A.f(ad, 'icao'), aa), 'announced address differs from bits 9-32')
        cf('trailing', icao_claim(A.f(ad, 'pi'), last24), 'PI differs from the last 24 bits')
    elif v == 'TisB':
        cfld = A.f(df, 'cf')
        cf('cf-type', enum_id_claim(prog, A.f(cfld, 't'), CFT_IDS, fbits(F, 6, 8)), 'control field type differs from bits 6-8')
        cf('address', icao_claim(A.f(cfld, 'aa'), aa), 'announced address differs from bits 9-32')
        cf('trailing', icao_claim(A.f(df, 'pi'), last24), 'PI differs from the last 24 bits')
    elif v == 'ModeSExtendedSquitter':
        cf('capability', cap_claim(A.f(df, 'capability')), 'capability differs from bits 6-8')
        cf('address', icao_claim(A.f(df, 'icao'), aa), 'announced address differs from bits 9-32')
        cf('trailing', icao_claim(A.f(df, 'parity'), last24), 'parity differs from the last 24 bits')
    elif v == 'ShortAirAirSurveillance':
        cf('VS', eq_bits(A.f(df, 'vs'), fbits(F, 6, 6)), 'VS differs from bit 6')
        cf('CC', eq_bits(A.f(df, 'cc'), fbits(F, 7, 7)), 'CC differs from bit 7')
        cf('SL', eq_bits(A.f(df, 'sl'), fbits(F, 9, 11)), 'SL differs from bits 9-11')
        cf('RI', eq_bits(A.f(df, 'ri'), fbits(F, 14, 17)), 'RI differs from bits 14-17')
        cf('trailing', icao_claim(A.f(df, 'parity'), last24), 'AP differs from the last 24 bits')
    elif v == 'LongAirAir':
        cf('VS', eq_bits(A.f(df, 'vs'), fbits(F, 6, 6)), 'VS differs from bit 6')
        cf('SL', eq_bits(A.f(df, 'sl'), fbits(F, 9, 11)), 'SL differs from bits 9-11')
        cf('RI', eq_bits(A.f(df, 'ri'), fbits(F, 14, 17)), 'RI differs from bits 14-17')
        mv = A.f(df, 'mv')
        cf('MV', bytes_eq(mv, fbits(F, 33, 88)) if len(mv.e) == 7 else z3.BoolVal(False), 'MV differs from bits 33-88')
        cf('trailing', icao_claim(A.f(df, 'parity'), last24), 'AP differs from the last 24 bits')
    elif v == 'SurveillanceAltitudeReply':
        fs_dr_um(A.f(df, 'fs'), A.f(df, 'dr'), A.f(df, 'um'))
        cf('trailing', icao_claim(A.f(df, 'ap'), last24), 'AP differs from the last 24 bits')
    elif v == 'SurveillanceIdentityReply':
        fs_dr_um(A.f(df, 'fs'), A.f(df, 'dr'), A.f(df, 'um'))
        cf('trailing', icao_claim(A.f(df, 'ap'), last24), 'AP differs from the last 24 bits')
    elif v == 'CommBAltitudeReply':
        fs_dr_um(A.f(df, 'flight_status'), A.f(df, 'dr'), A.f(df, 'um'))
    elif v == 'CommBIdentityReply':
        fs_dr_um(A.f(df, 'fs'), A.f(df, 'dr'), A.f(df, 'um'))
        cf('trailing', icao_claim(A.f(df, 'parity'), last24), 'AP differs from the last 24 bits')


# ======================================================================================= C06
def c06(ctx, l, sig):
    prog, L, bs, P, A = ctx['prog'], ctx['L'], ctx['bs'], ctx['P'], ctx['A']
    fr = ok_frame(l)
    if fr is None:
        return
    df = A.f(fr, 'df')
    v = df.variant
    ids = VARIANT_DF.get(v)
    need = 7 if ids and ids[0] in SHORT else 14
    if L < need:
        return
    F = bs[:need]
    ac13 = {'ShortAirAirSurveillance': 'altitude', 'SurveillanceAltitudeReply': 'ac', 'LongAirAir': 'altitude',
            'CommBAltitudeReply': 'alt'}
    if v in ac13:
        fld = A.f(df, ac13[v])
        got = fld.f[0]
        want = O.ac13_altitude(fbits(F, 20, 32))
        def extra(m):
            code = m.eval(fbits(F, 20, 32), model_completion=True).as_long()
            gm = m.eval(to_bv(got), model_completion=True).as_long()
            wm = m.eval(want, model_completion=True).as_long()
            return {'code': code, 'got': gm, 'want': wm,
                    'detail': '13-bit code %#06x decodes to %d, Annex 10 gives %d' % (code, gm, wm)}
        obligation(ctx, 'C06', '%s:AC13' % sig, to_bv(got) == want, '13-bit altitude code decodes to a value other than the Annex 10 altitude', extra)
        return
    if v in ('ADSB', 'TisB'):
        me = A.f(df.f[0], 'me') if v == 'ADSB' else A.f(A.f(df, 'cf'), 'me')
        if me.variant in ('AirbornePositionBaroAltitude', 'AirbornePositionGNSSAltitude'):
            alt = A.f(me.f[0], 'alt')
            c12 = fbits(F, 41, 52)
            is_some, val = O.ac12_altitude(c12)
            dsome = to_z3bool(mk_bool(opt_discr(alt) == z3.BitVecVal(1, 64)))
            got = to_bv(alt.f[0]) if alt.f else z3.BitVecVal(0, 16)
            claim = z3.Or(z3.And(is_some, dsome, got == val),
                          z3.And(z3.Not(is_some), z3.Not(dsome)),
                          z3.And(is_some, val == 0, z3.Not(dsome)))
            def extra12(m):
                code = m.eval(c12, model_completion=True).as_long()
                return {'code': code, 'detail': '12-bit code %#05x: decoded %s, oracle some=%s value=%s' % (
                    code, m.eval(dsome, model_completion=True), m.eval(is_some, model_completion=True), m.eval(val, model_completion=True))}
            obligation(ctx, 'C06', '%s:AC12' % sig, claim, '12-bit altitude code decodes to a value other than the Annex 10 altitude', extra12)


# ======================================================================================= C09
def c09(ctx, l, sig):
    prog, L, bs, P, A = ctx['prog'], ctx['L'], ctx['bs'], ctx['P'], ctx['A']
    fr = ok_frame(l)
    if fr is None:
        return
    df = A.f(fr, 'df')
    v = df.variant
    ids = VARIANT_DF.get(v)
    need = 7 if ids and ids[0] in SHORT else 14
    if L < need:
        return
    F = bs[:need]
    if v == 'SurveillanceIdentityReply':
        got = A.f(df, 'id').f[0]
        want = O.squawk(fbits(F, 20, 32))
        check_field(ctx, 'C09', l, '%s:squawk' % sig, zx(to_bv(got), 32) == zx(want, 32), 'DF5 identity differs from the de-interleaved ABCD digits')
    elif v == 'CommBIdentityReply':
        got = A.f(df, 'id')
        want = O.squawk(fbits(F, 20, 32))
        check_field(ctx, 'C09', l, '%s:squawk' % sig, zx(to_bv(got), 32) == zx(want, 32), 'DF21 identity differs from the de-interleaved ABCD digits')
    elif v in ('ADSB', 'TisB'):
        me = A.f(df.f[0], 'me') if v == 'ADSB' else A.f(A.f(df, 'cf'), 'me')
        if me.variant == 'AircraftStatus':
            s = me.f[0]
            want = O.squawk(fbits(F, 44, 56))
            check_field(ctx, 'C09', l, '%s:squawk' % sig, zx(to_bv(A.f(s, 'squawk')), 32) == zx(want, 32),
                        'type 28 squawk differs from the de-interleaved ABCD digits of ME bits 12-24')
            st_ids = {'NoInformation': 0, 'EmergencyPriorityStatus': 1, 'ACASRaBroadcast': 2, 'Reserved': [3, 4, 5, 6, 7]}
            check_field(ctx, 'C09', l, '%s:subtype' % sig, enum_id_claim(prog, A.f(s, 'sub_type'), st_ids, fbits(F, 38, 40)),
                        'type 28 subtype differs from ME bits 6-8')
            em_ids = {'None': 0, 'General': 1, 'Lifeguard': 2, 'MinimumFuel': 3, 'NoCommunication': 4,
                      'UnlawfulInterference': 5, 'DownedAircraft': 6, 'Reserved2': 7}
            check_field(ctx, 'C09', l, '%s:emergency' % sig, enum_id_claim(prog, A.f(s, 'emergency_state'), em_ids, fbits(F, 41, 43)),
                        'type 28 emergency state differs from ME bits 9-11')


# ======================================================================================= C08
def c08(ctx, l, sig):
    prog, L, bs, P, A = ctx['prog'], ctx['L'], ctx['bs'], ctx['P'], ctx['A']
    fr = ok_frame(l)
    if fr is None:
        return
    df = A.f(fr, 'df')
    v = df.variant
    if L < 14:
        return
    F = bs[:14]
    cn = None
    if v in ('ADSB', 'TisB'):
        me = A.f(df.f[0], 'me') if v == 'ADSB' else A.f(A.f(df, 'cf'), 'me')
        if me.variant != 'AircraftIdentification':
            return
        ident = me.f[0]
        cn = A.f(ident, 'cn')
        carrier = 'TC1-4/%s' % v
        tc_ids = {'D': 1, 'C': 2, 'B': 3, 'A': 4}
        check_field(ctx, 'C08', l, '%s:category-type' % sig, enum_id_claim(prog, A.f(ident, 'tc'), tc_ids, fbits(F, 33, 37)),
                    'type coding differs from the type code')
        check_field(ctx, 'C08', l, '%s:category' % sig, eq_bits(A.f(ident, 'ca'), fbits(F, 38, 40)),
                    'category differs from ME bits 6-8')
    elif v in ('CommBAltitudeReply', 'CommBIdentityReply'):
        bds = A.f(df, 'bds')
        if bds.variant != 'AircraftIdentification':
            return
        cn = bds.f[0]
        carrier = 'BDS20/%s' % v
    else:
        return
    chars = _b.string_chars(cn)
    if chars is None:
        raise ExecError('identification string is not a plain character string')
    codes = [fbits(F, 41 + 6 * i, 46 + 6 * i) for i in range(8)]
    # which of the 8 characters are spaces on this path?  (decided by the solver, per character)
    expect = []
    undecided = []
    for i, c in enumerate(codes):
        is_sp = c == 32
        if P.implied(is_sp):
            continue
        if P.implied(z3.Not(is_sp)):
            expect.append(('always', i))
        else:
            undecided.append(i)
            expect.append(('maybe', i))
    # build the claim by case split over the undecided characters (at most the 8th on the current code)
    if len(undecided) > 3:
        # the path condition does not even talk about the character bits: the string was read from elsewhere
        violation(ctx, 'C08', '%s:ident' % sig, P.feasible(), 'identification string does not depend on ME bits 9-56')
        return
    claim_parts = []
    for mask in range(1 << len(undecided)):
        sp = {undecided[k]: bool(mask >> k & 1) for k in range(len(undecided))}
        cond = [codes[i] == 32 if s else codes[i] != 32 for i, s in sp.items()]
        kept = [i for kind, i in expect if kind == 'always' or not sp[i]]
        if len(kept) != len(chars):
            body = z3.BoolVal(False)
        else:
            body = z3.And(*[zx(to_bv(ch), 32) == O.ia5_char(codes[i]) for ch, i in zip(chars, kept)]) if kept else z3.BoolVal(True)
        claim_parts.append(z3.Implies(z3.And(*cond) if cond else z3.BoolVal(True), body))
    def extra(m):
        cs = [m.eval(c, model_completion=True).as_long() for c in codes]
        got = ''.join(chr(m.eval(zx(to_bv(ch), 32), model_completion=True).as_long()) for ch in chars)
        want = ''.join(chr(m.eval(O.ia5_char(c), model_completion=True).as_long()) for c in codes
                       if m.eval(c, model_completion=True).as_long() != 32)
        return {'detail': 'character codes %s decode to %r, expected %r' % (cs, got, want)}
    obligation(ctx, 'C08', '%s:ident' % sig, z3.And(*claim_parts),
               'identification string differs from the eight mapped characters with spaces removed', extra)


# ======================================================================================= registry
HANDLERS = {'C02': c02, 'C03': c03, 'C04': c04, 'C06': c06, 'C08': c08, 'C09': c09}
FINALIZERS = {'C02': c02_final}


# ======================================================================================= C10
ME_TABLE = {
    'NoPosition': [0], 'AircraftIdentification': [1, 2, 3, 4], 'SurfacePosition': [5, 6, 7, 8],
    'AirbornePositionBaroAltitude': list(range(9, 19)), 'AirborneVelocity': [19],
    'AirbornePositionGNSSAltitude': [20, 21, 22], 'Reserved0': [23], 'SurfaceSystemStatus': [24],
    'Reserved1': [25, 26, 27], 'AircraftStatus': [28], 'TargetStateAndStatusInformation': [29],
    'AircraftOperationalCoordination': [30], 'AircraftOperationStatus': [31],
}
SS_IDS = {'NoCondition': 0, 'PermanentAlert': 1, 'TemporaryAlert': 2, 'SPICondition': 3}
CPR_IDS = {'Even': 0, 'Odd': 1}
GT_IDS = {'Invalid': 0, 'Valid': 1}
VER_IDS = {'DOC9871AppendixA': 0, 'DOC9871AppendixB': 1, 'DOC9871AppendixC': 2}
OPST_IDS = {'Airborne': 0, 'Surface': 1, 'Reserved': [2, 3, 4, 5, 6, 7]}
F32 = z3.Float32()


def flt_term(x):
    return to_fp(x)


def me_of(ctx, df):
    A = ctx['A']
    if df.variant == 'ADSB':
        return A.f(df.f[0], 'me')
    if df.variant == 'TisB':
        return A.f(A.f(df, 'cf'), 'me')
    return None


def c10(ctx, l, sig):
    prog, L, bs, P, A = ctx['prog'], ctx['L'], ctx['bs'], ctx['P'], ctx['A']
    fr = ok_frame(l)
    if fr is None and l.kind == 'return' and L >= 14:
        # every type code / BDS code selects a layout: an extended squitter or Comm-B reply of full length is only
        # rejected for the operational-status reserved-bits / version condition (shared with C02)
        dfb = z3.LShR(bs[0], 3)
        es = z3.Or(dfb == 17, dfb == 18, dfb == 20, dfb == 21)
        if P.feasible(es) is not None:
            obligation(ctx, 'C10', '%s:extended-squitter-rejected' % sig, z3.Or(z3.Not(es), opstatus_reject_cond(bs)),
                       'a DF17/18/20/21 frame of full length is rejected although its type / BDS code selects a layout')
    if fr is None or L < 14:
        return
    df = A.f(fr, 'df')
    F = bs[:14]

    def me(a, b):
        return fbits(F, 32 + a, 32 + b)

    def ob(role, claim, detail):
        obligation(ctx, 'C10', '%s:%s' % (sig, role), claim, detail)

    def bits_field(obj, name, a, b):
        ob(name, eq_bits(A.f(obj, name), me(a, b)), '%s differs from payload bits %d-%d' % (name, a, b))

    if df.variant in ('CommBAltitudeReply', 'CommBIdentityReply'):
        bds = A.f(df, 'bds')
        table = {'Empty': [0x00], 'DataLinkCapability': [0x10], 'AircraftIdentification': [0x20],
                 'Unknown': [i for i in range(256) if i not in (0, 0x10, 0x20)]}
        ob('bds-dispatch', enum_id_claim(prog, bds, table, me(1, 8)), 'BDS variant is not the one selected by the first MB byte')
        if bds.variant == 'DataLinkCapability':
            d = bds.f[0]
            for name, a, b in (('continuation_flag', 9, 9), ('overlay_command_capability', 15, 15), ('acas', 16, 16),
                               ('mode_s_subnetwork_version_number', 17, 23),
                               ('transponder_enhanced_protocol_indicator', 24, 24),
                               ('mode_s_specific_services_capability', 25, 25),
                               ('uplink_elm_average_throughput_capability', 26, 28), ('downlink_elm', 29, 32),
                               ('aircraft_identification_capability', 33, 33), ('squitter_capability_subfield', 34, 34),
                               ('surveillance_identifier_code', 35, 35),
                               ('common_usage_gicb_capability_report', 36, 36), ('reserved_acas', 37, 40),
                               ('bit_array', 41, 56)):
                bits_field(d, name, a, b)
        return
    m_ = me_of(ctx, df)
    if m_ is None:
        return
    ob('me-dispatch', enum_id_claim(prog, m_, ME_TABLE, me(1, 5)), 'ME variant is not the one selected by the type code')
    v = m_.variant
    if v in ('AirbornePositionBaroAltitude', 'AirbornePositionGNSSAltitude'):
        a_ = m_.f[0]
        bits_field(a_, 'tc', 1, 5)
        ob('ss', enum_id_claim(prog, A.f(a_, 'ss'), SS_IDS, me(6, 7)), 'surveillance status differs from ME bits 6-7')
        bits_field(a_, 'saf_or_imf', 8, 8)
        bits_field(a_, 't', 21, 21)
        ob('odd_flag', enum_id_claim(prog, A.f(a_, 'odd_flag'), CPR_IDS, me(22, 22)), 'CPR format differs from ME bit 22')
        bits_field(a_, 'lat_cpr', 23, 39)
        bits_field(a_, 'lon_cpr', 40, 56)
    elif v == 'SurfacePosition':
        s_ = m_.f[0]
        bits_field(s_, 'mov', 6, 12)
        ob('s', enum_id_claim(prog, A.f(s_, 's'), GT_IDS, me(13, 13)), 'ground track status differs from ME bit 13')
        bits_field(s_, 'trk', 14, 20)
        bits_field(s_, 't', 21, 21)
        ob('f', enum_id_claim(prog, A.f(s_, 'f'), CPR_IDS, me(22, 22)), 'CPR format differs from ME bit 22')
        bits_field(s_, 'lat_cpr', 23, 39)
        bits_field(s_, 'lon_cpr', 40, 56)
    elif v == 'TargetStateAndStatusInformation':
        t_ = m_.f[0]
        bits_field(t_, 'subtype', 6, 7)
        bits_field(t_, 'is_fms', 9, 9)
        n = zx(me(10, 20), 32)
        want_alt = z3.If(z3.UGT(n, 1), (n - 1) * 32, z3.BitVecVal(0, 32))
        ob('altitude', zx(bv_of(A.f(t_, 'altitude')), 32) == want_alt, 'selected altitude differs from (N-1)*32 ft of ME bits 10-20')
        q = zx(me(21, 29), 32)
        want_q = z3.If(q == 0, z3.FPVal(0.0, F32),
                       z3.fpAdd(z3.RNE(), z3.FPVal(800.0, F32),
                                z3.fpMul(z3.RNE(), z3.fpUnsignedToFP(z3.RNE(), q - 1, F32), z3.FPVal(0.8, F32))))
        ob('qnh', flt_term(A.f(t_, 'qnh')) == want_q, 'QNH differs from 800+(N-1)*0.8 of ME bits 21-29')
        bits_field(t_, 'is_heading', 30, 30)
        h = zx(me(31, 39), 16)
        want_h = z3.fpDiv(z3.RNE(), z3.fpMul(z3.RNE(), z3.fpUnsignedToFP(z3.RNE(), h, F32), z3.FPVal(180.0, F32)),
                          z3.FPVal(256.0, F32))
        ob('heading', flt_term(A.f(t_, 'heading')) == want_h, 'heading differs from N*180/256 of ME bits 31-39')
        for name, a, b in (('nacp', 40, 43), ('nicbaro', 44, 44), ('sil', 45, 46), ('mode_validity', 47, 47),
                           ('autopilot', 48, 48), ('vnac', 49, 49), ('alt_hold', 50, 50), ('imf', 51, 51),
                           ('approach', 52, 52), ('tcas', 53, 53), ('lnav', 54, 54)):
            bits_field(t_, name, a, b)
    elif v == 'AircraftOperationStatus':
        o_ = m_.f[0]
        ob('opstatus-dispatch', enum_id_claim(prog, o_, OPST_IDS, me(6, 8)), 'operational status variant differs from the subtype')
        if o_.variant == 'Airborne':
            a_ = o_.f[0]
            cc = A.f(a_, 'capability_class')
            for name, x, y in (('acas', 11, 11), ('cdti', 12, 12), ('arv', 15, 15), ('ts', 16, 16), ('tc', 17, 18)):
                bits_field(cc, name, x, y)
            opmode(ctx, ob, A.f(a_, 'operational_mode'), me)
            ob('version_number', enum_id_claim(prog, A.f(a_, 'version_number'), VER_IDS, me(41, 43)), 'version differs from ME bits 41-43')
            for name, x, y in (('nic_supplement_a', 44, 44), ('navigational_accuracy_category', 45, 48),
                               ('geometric_vertical_accuracy', 49, 50), ('source_integrity_level', 51, 52),
                               ('barometric_altitude_integrity', 53, 53), ('horizontal_reference_direction', 54, 54),
                               ('sil_supplement', 55, 55)):
                bits_field(a_, name, x, y)
        elif o_.variant == 'Surface':
            s_ = o_.f[0]
            cc = A.f(s_, 'capability_class')
            for name, x, y in (('poe', 11, 11), ('es1090', 12, 12), ('b2_low', 15, 15), ('uat_in', 16, 16),
                               ('nac_v', 17, 19), ('nic_supplement_c', 20, 20)):
                bits_field(cc, name, x, y)
            bits_field(s_, 'lw_codes', 21, 24)
            opmode(ctx, ob, A.f(s_, 'operational_mode'), me)
            bits_field(s_, 'gps_antenna_offset', 33, 40)
            ob('version_number', enum_id_claim(prog, A.f(s_, 'version_number'), VER_IDS, me(41, 43)), 'version differs from ME bits 41-43')
            for name, x, y in (('nic_supplement_a', 44, 44), ('navigational_accuracy_category', 45, 48),
                               ('source_integrity_level', 51, 52), ('barometric_altitude_integrity', 53, 53),
                               ('horizontal_reference_direction', 54, 54), ('sil_supplement', 55, 55)):
                bits_field(s_, name, x, y)


def opmode(ctx, ob, om, me):
    A = ctx['A']
    for name, x, y in (('tcas_ra_active', 27, 27), ('ident_switch_active', 28, 28),
                       ('reserved_recv_atc_service', 29, 29), ('single_antenna_flag', 30, 30),
                       ('system_design_assurance', 31, 32)):
        ob('operational_mode.' + name, eq_bits(A.f(om, name), me(x, y)), '%s differs from ME bits %d-%d' % (name, x, y))


# ======================================================================================= C07 (fields + integer part of calculate)
SIGN_IDS = {'Positive': 0, 'Negative': 1}
VRS_IDS = {'GeometricAltitude': 0, 'BarometricPressureAltitude': 1}       # DO-260B: 0 = GNSS/geometric, 1 = barometric


def c07(ctx, l, sig):
    prog, L, bs, P, A = ctx['prog'], ctx['L'], ctx['bs'], ctx['P'], ctx['A']
    fr = ok_frame(l)
    if fr is None or L < 14:
        return
    df = A.f(fr, 'df')
    m_ = me_of(ctx, df)
    if m_ is None or m_.variant != 'AirborneVelocity':
        return
    F = bs[:14]
    av = m_.f[0]

    def me(a, b):
        return fbits(F, 32 + a, 32 + b)

    def ob(role, claim, detail):
        obligation(ctx, 'C07', '%s:%s' % (sig, role), claim, detail)

    def bits_field(obj, name, a, b):
        ob(name, eq_bits(A.f(obj, name), me(a, b)), '%s differs from ME bits %d-%d' % (name, a, b))

    bits_field(av, 'st', 6, 8)
    bits_field(av, 'nac_v', 9, 13)
    st_tab = {'Reserved0': [0], 'GroundSpeedDecoding': [1, 2], 'AirspeedDecoding': [3, 4], 'Reserved1': [5, 6, 7]}
    sub = A.f(av, 'sub_type')
    ob('subtype-dispatch', enum_id_claim(prog, sub, st_tab, me(6, 8)), 'velocity sub-structure differs from the subtype')
    if sub.variant == 'GroundSpeedDecoding':
        g = sub.f[0]
        ob('ew_sign', enum_id_claim(prog, A.f(g, 'ew_sign'), SIGN_IDS, me(14, 14)), 'E/W direction differs from ME bit 14')
        bits_field(g, 'ew_vel', 15, 24)
        ob('ns_sign', enum_id_claim(prog, A.f(g, 'ns_sign'), SIGN_IDS, me(25, 25)), 'N/S direction differs from ME bit 25')
        bits_field(g, 'ns_vel', 26, 35)
    elif sub.variant == 'AirspeedDecoding':
        a_ = sub.f[0]
        bits_field(a_, 'status_heading', 14, 14)
        bits_field(a_, 'mag_heading', 15, 24)
        bits_field(a_, 'airspeed_type', 25, 25)
        raw = zx(me(26, 35), 16)
        ob('airspeed', zx(bv_of(A.f(a_, 'airspeed')), 16) == z3.If(raw == 0, raw, raw - 1), 'airspeed differs from raw-1 kt of ME bits 26-35')
    ob('vrate_src', enum_id_claim(prog, A.f(av, 'vrate_src'), VRS_IDS, me(36, 36)), 'vertical rate source differs from ME bit 36 (0 = geometric, 1 = barometric)')
    ob('vrate_sign', enum_id_claim(prog, A.f(av, 'vrate_sign'), SIGN_IDS, me(37, 37)), 'vertical rate sign differs from ME bit 37')
    bits_field(av, 'vrate_value', 38, 46)
    ob('gnss_sign', enum_id_claim(prog, A.f(av, 'gnss_sign'), SIGN_IDS, me(49, 49)), 'difference sign differs from ME bit 49')
    raw = zx(me(50, 56), 16)
    ob('gnss_baro_diff', zx(bv_of(A.f(av, 'gnss_baro_diff')), 16) == z3.If(z3.ULE(raw, 1), z3.BitVecVal(0, 16), (raw - 1) * 25),
       'GNSS-baro difference differs from (raw-1)*25 ft of ME bits 50-56')
    c07_calculate(ctx, l, sig, av, me, ob)


def c07_calculate(ctx, l, sig, av, me, ob):
    """AirborneVelocity::calculate on this leaf's value: presence rule, components, vertical rate, and the shape of
    the heading / speed terms (atan2 / hypot are uninterpreted: argument order and post-processing are decided)."""
    prog, P = ctx['prog'], ctx['P']
    name = prog.find_free_fn('AirborneVelocity::calculate')
    if name is None:
        raise ExecError('AirborneVelocity::calculate not found')
    ex = Executor(prog, _b.B)
    leaves = ex.run(prog.items[name], [Ref(('V', av))], pc=list(l.pc))
    if ex.stats['unknown']:
        ctx['res']['inconclusive'] = 'solver returned unknown while exploring calculate()'
    ctx['res']['fn_calls'].update({k: ctx['res']['fn_calls'].get(k, 0) + v for k, v in ex.stats['fn_calls'].items()})
    st = zx(me(6, 8), 16)
    ew = zx(me(15, 24), 16)
    ns = zx(me(26, 35), 16)
    vr = zx(me(38, 46), 16)
    gs = z3.Or(st == 1, st == 2)
    expect_some = z3.And(gs, ew != 0, ns != 0, vr != 0)
    scale = z3.If(st == 2, z3.BitVecVal(4, 16), z3.BitVecVal(1, 16))
    v_ew = (ew - 1) * scale * z3.If(me(14, 14) == 1, z3.BitVecVal(-1, 16), z3.BitVecVal(1, 16))
    v_ns = (ns - 1) * scale * z3.If(me(25, 25) == 1, z3.BitVecVal(-1, 16), z3.BitVecVal(1, 16))
    want_vrate = (vr - 1) * 64 * z3.If(me(37, 37) == 1, z3.BitVecVal(-1, 16), z3.BitVecVal(1, 16))
    F64 = z3.Float64()
    fe = z3.fpSignedToFP(z3.RNE(), v_ew, F64)
    fn_ = z3.fpSignedToFP(z3.RNE(), v_ns, F64)
    K = z3.FPVal(360.0 / (2.0 * 3.141592653589793), F64)
    for cl in leaves:
        if cl.kind != 'return':
            violation(ctx, 'C07', '%s:calculate-panics' % sig, P.feasible(z3.And(*cl.pc[len(l.pc):]) if cl.pc[len(l.pc):] else None),
                      'calculate() panics: %s' % cl.msg)
            continue
        extra = cl.pc[len(l.pc):]
        pre = z3.And(*extra) if extra else z3.BoolVal(True)
        r = cl.value
        is_some = mk_bool(opt_discr(r) == z3.BitVecVal(1, 64))
        ob('calculate-presence', z3.Implies(pre, to_z3bool(is_some) == expect_some),
           'calculate() returns a velocity although a field is 0 (no information) / the subtype is not ground speed, or withholds one although velocity and rate are present')
        if is_some is False or not r.f:
            continue
        heading, speed, vrate = r.f[0].f
        both = z3.And(pre, expect_some, to_z3bool(is_some))
        ob('calculate-vrate', z3.Implies(both, to_bv(vrate) == want_vrate), 'vertical rate differs from (raw-1)*64 with sign')
        # heading = wrap(atan2(E, N) * 360/2pi) as f32, speed = hypot(E, N): locate the uninterpreted applications in
        # the code's terms, compare their arguments with the reference components, then compare the shape around them
        at = find_app(to_fp(heading), ('libm_atan2_f64', 'stdm_atan2_f64'))
        hy = find_app(to_fp(speed), ('libm_hypot_f64', 'stdm_hypot_f64'))
        if at is None or hy is None:
            violation(ctx, 'C07', '%s:calculate-shape' % sig, P.feasible(both), 'heading/speed are not computed with atan2/hypot')
            continue
        ob('calculate-east-component', z3.Implies(both, z3.And(at.arg(0) == fe, z3.fpEQ(hy.arg(0), fe))),
           'east component is not (raw-1) kt (x4 for subtype 2) with its direction sign, or is not the first atan2/hypot argument')
        ob('calculate-north-component', z3.Implies(both, z3.And(at.arg(1) == fn_, z3.fpEQ(hy.arg(1), fn_))),
           'north component is not (raw-1) kt (x4 for subtype 2) with its direction sign, or is not the second atan2/hypot argument')
        h = z3.fpMul(z3.RNE(), at, K)
        from mirsym.execu import fp_cmp
        neg = to_z3bool(fp_cmp('Lt', h, z3.FPVal(0.0, F64)))
        want_heading = z3.fpToFP(z3.RNE(), z3.If(neg, z3.fpAdd(z3.RNE(), h, z3.FPVal(360.0, F64)), h), z3.Float32())
        ob('calculate-heading', z3.Implies(both, to_fp(heading) == want_heading), 'track is not atan2(east, north) in degrees wrapped to [0, 360)')
        ob('calculate-speed', z3.Implies(both, to_fp(speed) == hy), 'ground speed is not the Euclidean norm (hypot) of the components')


def find_app(t, name):
    """first application of one of the functions `name` (tuple of names) inside term t (DFS)"""
    seen = set()
    stack = [t]
    while stack:
        x = stack.pop()
        i = x.get_id()
        if i in seen:
            continue
        seen.add(i)
        if z3.is_app(x):
            if x.decl().name() in name:
                return x
            stack.extend(x.children())
    return None


HANDLERS.update({'C10': c10, 'C07': c07})


# ======================================================================================= C01 (totality of decode + frame operations)
def c01(ctx, l, sig):
    prog, L, bs, P, A = ctx['prog'], ctx['L'], ctx['bs'], ctx['P'], ctx['A']
    res = ctx['res']
    P.obligations += 1
    if l.kind == 'panic':
        violation(ctx, 'C01', 'decode-panics:%s' % (l.where or ''), P.feasible(), 'Frame::from_bytes panics: %s' % l.msg)
        return
    if l.kind == 'error':
        res['inconclusive'] = 'exploration error leaf: %s at %s' % (l.msg, l.where)
        return
    P.discharged += 1
    alloc = l.env.get('alloc', 0)
    res['max_alloc'] = max(res.get('max_alloc', 0), alloc)
    P.obligations += 1
    if alloc > 4 * L + 64:
        violation(ctx, 'C01', 'decode-allocates:%s' % sig, P.feasible(), 'decoding appended %d bytes to heap containers for a %d-byte input' % (alloc, L))
    else:
        P.discharged += 1
    fr = ok_frame(l)
    if fr is None or not ctx['job'].get('ops'):
        return
    # every operation offered on the decoded frame: text rendering ...
    ex2 = Executor(prog, _b.B)
    ls = ex2.run_builtin_call('<Frame as ToString>::to_string', [Ref(('V', fr))], pc=list(l.pc))
    res['display_paths'] = res.get('display_paths', 0) + len(ls)
    note_calls(res, ex2)
    for c in ls:
        P.obligations += 1
        if c.kind == 'panic':
            m = ex2.model(c.pc)
            violation(ctx, 'C01', 'display-panics:%s' % sig, m, 'rendering panics: %s (%s)' % (c.msg, c.where))
        elif c.kind == 'error':
            res['inconclusive'] = 'display exploration error: %s at %s' % (c.msg, c.where)
        else:
            P.discharged += 1
    # ... velocity computation
    df = A.f(fr, 'df')
    m_ = me_of(ctx, df)
    if m_ is not None and m_.variant == 'AirborneVelocity':
        name = prog.find_free_fn('AirborneVelocity::calculate')
        ex3 = Executor(prog, _b.B)
        ls = ex3.run(prog.items[name], [Ref(('V', m_.f[0]))], pc=list(l.pc))
        note_calls(res, ex3)
        for c in ls:
            P.obligations += 1
            if c.kind == 'panic':
                violation(ctx, 'C01', 'calculate-panics:%s' % sig, ex3.model(c.pc), 'calculate() panics: %s (%s)' % (c.msg, c.where))
            elif c.kind == 'error':
                res['inconclusive'] = 'calculate exploration error: %s at %s' % (c.msg, c.where)
            else:
                P.discharged += 1
        if ex3.stats['unknown']:
            res['inconclusive'] = 'solver unknown while exploring calculate()'
    if ex2.stats['unknown']:
        res['inconclusive'] = 'solver unknown while exploring Display'


def note_calls(res, ex):
    for k, v in ex.stats['fn_calls'].items():
        res['fn_calls'][k] = res['fn_calls'].get(k, 0) + v
    for k, v in ex.stats['builtin_calls'].items():
        res['builtin_calls'][k] = res['builtin_calls'].get(k, 0) + v


HANDLERS['C01'] = c01
