"""C20 (first half): the alloc-only build and the std build decode, render, pair positions and track identically.
Both MIR dumps (default features / --no-default-features --features alloc) are regenerated from /repo, the same
symbolic explorations are run on both programs over shared symbolic inputs, and z3 is asked for any input on which
a pair of jointly feasible paths differs.  std-only state (time stamps) is projected away, as the property says.
The serde half is not applicable (see MANIFEST not_applicable / DESIGN §3)."""
import os
import sys
import time

import z3

from checks import framework as fw
from checks.framework import explore_from_bytes, Prover, model_bytes, leaf_sig, slice_constraints
from checks.decode_props import value_eq
from checks import tracker as T
from mirsym.values import *          # noqa
from mirsym.execu import Executor, ExecError, Program
from mirsym import builtins as _b
from mirsym import loader
from mirsym import validate as V

ASSUME = [
    'the io layer underneath deku (std::io vs no_std_io2: Cursor, read_exact, read_to_end) is represented by the same '
    'builtin model in both configurations: differences between those two libraries are outside the claim',
    'libm functions are the same uninterpreted functions in both configurations',
    'tracker: one step from an arbitrary valid state (as in C12-C14); SystemTime fields exist only in the std build and are projected away',
    'bounds: buffer lengths 7 and 14 (quick) / 7, 8, 14, 15 (thorough); k <= 2 tracked aircraft',
]

_P = {}


def programs(job):
    key = tuple(job['files_std'] + job['files_alloc'])
    if key not in _P:
        a = Program(loader.REPO, ('std', 'alloc'))
        for f, d in zip(job['files_std'], job['dirs']):
            a.add_mir(open(f).read(), d)
        b = Program(loader.REPO, ('alloc',))
        for f, d in zip(job['files_alloc'], job['dirs']):
            b.add_mir(open(f).read(), d)
        _P[key] = (a, b)
    return _P[key]


def run_job(prog_unused, job):
    pa, pb = programs(job)
    kind = job['kind']
    res = {'paths': 0, 'violations': [], 'samples': [], 'steps': 0, 'fn_calls': {}, 'builtin_calls': {}, 'sigs': {}}
    if kind == 'decode':
        return job_decode(pa, pb, job, res)
    if kind == 'cpr':
        return job_cpr(pa, pb, job, res)
    if kind == 'action':
        return job_action(pa, pb, job, res)
    raise ExecError('unknown job ' + kind)


def note(res, ex):
    res['steps'] += ex.stats['steps']
    for k, v in ex.stats['fn_calls'].items():
        res['fn_calls'][k] = res['fn_calls'].get(k, 0) + v
    for k, v in ex.stats['builtin_calls'].items():
        res['builtin_calls'][k] = res['builtin_calls'].get(k, 0) + v
    if ex.stats['unknown']:
        res['inconclusive'] = 'solver unknown during exploration'


def string_eq_term(a, b):
    """equality of two rendered strings (segment lists)"""
    if len(a.segs) != len(b.segs):
        return z3.BoolVal(False)
    parts = []
    for x, y in zip(a.segs, b.segs):
        if isinstance(x, str) or isinstance(y, str):
            parts.append(z3.BoolVal(isinstance(x, str) and isinstance(y, str) and x == y))
        elif x[0] == 'chars' and y[0] == 'chars':
            if len(x[1]) != len(y[1]):
                return z3.BoolVal(False)
            parts += [to_bv(p) == to_bv(q) for p, q in zip(x[1], y[1])]
        elif x[0] == 'val' and y[0] == 'val':
            if x[1] != y[1]:
                return z3.BoolVal(False)
            parts.append(value_eq(x[2], y[2]) if (x[2] is not None and y[2] is not None) else z3.BoolVal(x[2] is y[2]))
        else:
            return z3.BoolVal(False)
    return z3.And(*parts) if parts else z3.BoolVal(True)


def job_decode(pa, pb, job, res):
    L, spec = job['L'], job['spec']
    exa, bs, la = explore_from_bytes(pa, L, spec)
    exb, bs2, lb = explore_from_bytes(pb, L, spec)
    note(res, exa)
    note(res, exb)
    P = Prover(base=slice_constraints(spec, bs))
    jb = [z3.And(*l.pc) if l.pc else z3.BoolVal(True) for l in lb]
    for l in la:
        res['paths'] += 1
        P.set_path(l.pc)
        sig = leaf_sig(l)
        res['sigs'][sig] = res['sigs'].get(sig, 0) + 1
        # fast pairing: the alloc path taken by one witness of this std path; if the std path implies it, it is
        # the only partner.  Otherwise fall back to all jointly feasible pairs.
        cands = list(zip(lb, jb))
        idx = res['paths'] - 1
        m0 = None
        if len(la) == len(lb) and P.implied(jb[idx]):
            cands = [(lb[idx], jb[idx])]       # both configurations enumerate their paths in the same order
        else:
            m0 = P.feasible()
        if m0 is not None:
            hit = [(l2, j) for l2, j in cands if z3.is_true(m0.eval(j, model_completion=True))]
            if len(hit) == 1 and P.implied(hit[0][1]):
                cands = hit
        for l2, j in cands:
            if len(cands) > 1 and P.feasible(j) is None:
                continue
            if l.kind != 'return' or l2.kind != 'return':
                same = z3.BoolVal(l.kind == l2.kind)
            elif l.value.variant != l2.value.variant:
                same = z3.BoolVal(False)
            elif l.value.variant == 'Ok':
                same = value_eq(l.value.f[0], l2.value.f[0])
            else:
                same = z3.BoolVal(l.value.f[0].variant == l2.value.f[0].variant)
            m = P.prove(z3.Implies(j, same))
            if m is not None:
                add_violation(res, 'decode:%s' % sig, 'std and alloc-only builds decode differently', m, bs, job)
                continue
            # renderings
            if l.kind == 'return' and l.value.variant == 'Ok' and job.get('display') and (sig not in res.setdefault('_disp_done', {}) or job.get('display') == 'all'):
                res['_disp_done'][sig] = 1
                e1 = Executor(pa, _b.B)
                d1 = e1.run_builtin_call('<Frame as ToString>::to_string', [Ref(('V', l.value.f[0]))], pc=list(l.pc) + [j])
                e2 = Executor(pb, _b.B)
                d2 = e2.run_builtin_call('<Frame as ToString>::to_string', [Ref(('V', l2.value.f[0]))], pc=list(l.pc) + [j])
                note(res, e1)
                note(res, e2)
                P2 = Prover()
                for i1, c1 in enumerate(d1):
                    P2.set_path(c1.pc)
                    cands2 = d2
                    if len(d1) == len(d2):
                        c2 = d2[i1]
                        j2 = z3.And(*c2.pc[len(l.pc) + 1:]) if c2.pc[len(l.pc) + 1:] else z3.BoolVal(True)
                        if P2.implied(j2):
                            cands2 = [c2]
                    for c2 in cands2:
                        j2 = z3.And(*c2.pc[len(l.pc) + 1:]) if c2.pc[len(l.pc) + 1:] else z3.BoolVal(True)
                        if len(cands2) > 1 and P2.feasible(j2) is None:
                            continue
                        if c1.kind != 'return' or c2.kind != 'return':
                            s2 = z3.BoolVal(c1.kind == c2.kind)
                        else:
                            s2 = string_eq_term(c1.value, c2.value)
                        m2 = P2.prove(z3.Implies(j2, s2))
                        if m2 is not None:
                            add_violation(res, 'display:%s' % sig, 'std and alloc-only builds render differently', m2, bs, job)
                P.obligations += P2.obligations
                P.discharged += P2.discharged
                P.solver_s += P2.solver_s
                P.set_path(l.pc)
    res.pop('_disp_done', None)
    res['obligations'] = P.obligations
    res['discharged'] = P.discharged
    res['solver_s'] = P.solver_s
    if la:
        P.set_path(la[0].pc)
        m = P.feasible()
        if m is not None:
            res['samples'].append({'frame': model_bytes(m, bs).hex(), 'path': leaf_sig(la[0]), 'configs': ['std', 'alloc']})
    return res


def add_violation(res, role, detail, m, bs, job, step_ctx=None):
    if m == 'unknown':
        res['inconclusive'] = 'solver unknown on ' + role
        return
    step = None
    if step_ctx is not None:
        from checks import step_replay
        try:
            step = step_replay.step_json(step_ctx['prog'], step_ctx, m)
        except Exception as e:      # noqa
            step = {'error': repr(e)}
    mm = {}
    try:
        for d in m.decls():
            n = str(d)
            if not n.startswith(('fpval', 'libm', 'get_position', 'b')) or n.startswith('fpatom'):
                mm[n] = str(m[d])[:40]
    except Exception:
        pass
    res['violations'].append({'property': 'C20', 'role': role, 'detail': detail, 'model': mm, 'job': {k: v for k, v in job.items() if not k.startswith('files')},
                              'witness': model_bytes(m, bs).hex() if bs is not None else None,
                              'replay_kind': 'config', 'step': step,
                              'cpr': ({n: int(str(m.eval(z3.BitVec(n, w), model_completion=True))) for n, w in
                                       (('a_lat', 17), ('a_lon', 17), ('a_odd', 1), ('b_lat', 17), ('b_lon', 17), ('b_odd', 1))}
                                      if role == 'get_position' else None)})


def job_cpr(pa, pb, job, res):
    outs = []
    for prog in (pa, pb):
        sym = T.Sym(prog)
        a, b = sym.altitude('a'), sym.altitude('b')
        fn = prog.items[prog.find_free_fn('get_position')]
        ex = Executor(prog, _b.B)
        ls = ex.run(fn, [Tup((Ref(('V', a)), Ref(('V', b))))], pc=list(sym.assume))
        note(res, ex)
        outs.append(ls)
    P = Prover()
    P.abstract = True
    for l in outs[0]:
        res['paths'] += 1
        P.set_path(l.pc)
        for l2 in outs[1]:
            j = z3.And(*l2.pc) if l2.pc else z3.BoolVal(True)
            if P.feasible(j) is None:
                continue
            same = z3.BoolVal(l.kind == l2.kind) if (l.kind != 'return' or l2.kind != 'return') else T.value_eq_bits(l.value, l2.value) if (l.value.f and l2.value.f and l.value.variant == l2.value.variant == 'Some') else value_eq(l.value, l2.value)
            m = P.prove(z3.Implies(j, same))
            if m is not None:
                add_violation(res, 'get_position', 'std and alloc-only builds compute different positions', m, None, job)
    res['obligations'] = P.obligations
    res['discharged'] = P.discharged
    res['solver_s'] = P.solver_s
    res['samples'].append({'pair': 'two arbitrary position reports', 'configs': ['std', 'alloc']})
    return res


def job_action(pa, pb, job, res):
    k = job['k']
    posts = []
    for prog in (pa, pb):
        S = prog.src.structs
        sym = T.Sym(prog)
        planes, keys, states = sym.planes(k)
        recv = Tup((sym.f64('recv_lat'), sym.f64('recv_lon')))
        rng = sym.f64('max_range')
        fr = T.sym_frame(sym, prog, job['frame'])
        fn = prog.items[prog.find_free_fn('Airplanes::action')]
        ex = Executor(prog, _b.B)
        ex.overrides['get_position'] = T.get_position_stub
        ls = ex.run_with_cells(fn, [('cell', planes), fr, recv, rng], pc=list(sym.assume))
        note(res, ex)
        posts.append((ls, ex.cell_ids[0], S, len(sym.assume)))
        if prog is pa:
            step_ctx = {'prog': pa, 'op': 'action', 'pre': planes, 'frame': fr, 'recv': recv, 'max_range': rng}
    (la, ca, Sa, na), (lb, cb, Sb, nb) = posts
    P = Prover()
    P.abstract = True
    for l in la:
        res['paths'] += 1
        # the std path conditions mention clock readings (free symbolic instants): kept as they are
        P.set_path(l.pc)
        for l2 in lb:
            j = z3.And(*l2.pc) if l2.pc else z3.BoolVal(True)
            if P.feasible(j) is None:
                continue
            if l.kind != 'return' or l2.kind != 'return':
                same = z3.BoolVal(l.kind == l2.kind)
            else:
                pa_, pb_ = l.cells[ca].f[0], l2.cells[cb].f[0]
                if len(pa_.ents) != len(pb_.ents):
                    same = z3.BoolVal(False)
                else:
                    parts = [('added-flag', value_eq(l.value, l2.value))]
                    for (k1, v1), (k2, v2) in zip(pa_.ents, pb_.ents):
                        parts.append(('key', value_eq(k1, k2)))
                        for n in Sb[v2.ty]:
                            parts.append((n, state_eq_by_name(Sa, Sb, T.fget(Sa, v1, n), T.fget(Sb, v2, n))))
                    same = None
                    for n, c in parts:
                        m = P.prove(z3.Implies(j, c))
                        if m is not None:
                            add_violation(res, 'tracker:%s:%s' % (job['frame'], n), 'std and alloc-only builds reach different tracker states (field %s)' % n, m, None, job, step_ctx)
                    continue
            m = P.prove(z3.Implies(j, same))
            if m is not None:
                add_violation(res, 'tracker:%s' % job['frame'], 'std and alloc-only builds reach different tracker states', m, None, job, step_ctx)
    res['obligations'] = P.obligations
    res['discharged'] = P.discharged
    res['solver_s'] = P.solver_s
    res['samples'].append({'frame_class': job['frame'], 'pre_state': '%d symbolic records' % k, 'configs': ['std', 'alloc']})
    return res


def state_eq_by_name(Sa, Sb, a, b):
    """equality of two records from different configurations: fields matched by name, std-only fields skipped"""
    if not (isinstance(a, Struct) and isinstance(b, Struct)) or a.ty != b.ty or a.ty not in Sa:
        if isinstance(a, Enum) and isinstance(b, Enum) and a.ty == 'Option' == b.ty:
            da, db = opt_discr(a), opt_discr(b)
            if a.f and b.f:
                return z3.And(da == db, z3.Implies(da == z3.BitVecVal(1, 64), state_eq_by_name(Sa, Sb, a.f[0], b.f[0])))
            return z3.And(da == db, da == z3.BitVecVal(0, 64)) if (a.f or b.f) else da == db
        if isinstance(a, (Vec, Arr)) and isinstance(b, (Vec, Arr)):
            if len(a.e) != len(b.e):
                return z3.BoolVal(False)
            return z3.And(*[state_eq_by_name(Sa, Sb, x, y) for x, y in zip(a.e, b.e)]) if a.e else z3.BoolVal(True)
        if isinstance(a, Flt) and isinstance(b, Flt):
            # numerically equal (the derived PartialEq the tracker itself uses to decide "same record")
            return z3.Or(to_fp(a) == to_fp(b), T.value_eq_fp(a, b))
        return value_eq(a, b)
    parts = []
    for n in Sb[b.ty]:
        if n not in Sa[a.ty]:
            return z3.BoolVal(False)
        parts.append(state_eq_by_name(Sa, Sb, T.fget(Sa, a, n), T.fget(Sb, b, n)))
    return z3.And(*parts) if parts else z3.BoolVal(True)


# ------------------------------------------------------------------------------------------ native replay
CFG_DIR = os.path.join(os.path.dirname(os.path.dirname(os.path.abspath(__file__))), 'replay_cfg')
_cfg_built = {}


def cfg_exe(variant):
    """/verif/replay_cfg built with the library crates in the given feature configuration ('std' | 'alloc')"""
    import subprocess
    if variant in _cfg_built:
        return _cfg_built[variant]
    cache = os.environ.get('VERIF_CACHE', '/verif/.cache')
    tgt = os.path.join(cache, 'target-replay-cfg-' + variant)
    env = dict(os.environ, CARGO_TARGET_DIR=tgt, CARGO_NET_OFFLINE='true')
    try:
        open(os.path.join(CFG_DIR, 'Cargo.lock'), 'w').write(open(os.path.join(os.environ.get('VERIF_REPO', '/repo'), 'Cargo.lock')).read())
    except OSError:
        pass
    cmd = ['cargo', 'build', '--offline', '--quiet'] + (['--no-default-features'] if variant == 'alloc' else [])
    p = subprocess.run(cmd, cwd=CFG_DIR, env=env, stdout=subprocess.PIPE, stderr=subprocess.STDOUT, text=True)
    if p.returncode != 0:
        raise RuntimeError('replay_cfg (%s) build failed:\n%s' % (variant, p.stdout[-2000:]))
    _cfg_built[variant] = os.path.join(tgt, 'debug', 'replay_cfg')
    return _cfg_built[variant]


def cfg_native(variant, request):
    import subprocess
    import json as _json
    p = subprocess.run([cfg_exe(variant)], input=request + '\n', stdout=subprocess.PIPE, stderr=subprocess.PIPE, text=True, timeout=120)
    return _json.loads(p.stdout.strip().splitlines()[-1])


def _strip_std_only(x):
    """drop the std-only time stamps from a serialised tracker state"""
    if isinstance(x, dict):
        return {k: _strip_std_only(v) for k, v in x.items() if k != 'last_time'}
    if isinstance(x, list):
        return [_strip_std_only(v) for v in x]
    return x


def replay(v):
    """Both feature configurations are run natively on the counterexample.  Decode / rendering / get_position
    counterexamples must show a difference (else the counterexample did not reproduce); a tracker-step
    counterexample that shows no native difference is reported as not replayable (its pre-state floats and libm
    values are model values), never silently dropped."""
    import json as _json
    role = v.get('role', '')
    if role.startswith(('decode:', 'display:')) and v.get('witness'):
        a, b = cfg_native('std', 'decode ' + v['witness']), cfg_native('alloc', 'decode ' + v['witness'])
        v['native'] = {'std': a, 'alloc': b}
        return a != b
    if role == 'get_position' and v.get('cpr'):
        c = v['cpr']
        req = 'cpr %s %d %d %s %d %d' % ('o' if c['a_odd'] else 'e', c['a_lat'], c['a_lon'], 'o' if c['b_odd'] else 'e', c['b_lat'], c['b_lon'])
        a, b = cfg_native('std', req), cfg_native('alloc', req)
        v['native'] = {'request': req, 'std': a, 'alloc': b}
        return a != b
    step = v.get('step')
    if role.startswith('tracker:') and isinstance(step, dict) and 'pre' in step:
        path = os.path.join(os.environ.get('VERIF_CACHE', '/verif/.cache'), 'cfgstep_%d.json' % os.getpid())
        st = {k: step[k] for k in ('pre', 'frame', 'recv', 'max_range') if k in step}
        _json.dump(st, open(path, 'w'))
        try:
            a, b = cfg_native('std', 'step ' + path), cfg_native('alloc', 'step ' + path)
        finally:
            try:
                os.remove(path)
            except OSError:
                pass
        differ = _strip_std_only(a) != _strip_std_only(b)
        v['native'] = {'differs': differ, 'std_added': a.get('added'), 'alloc_added': b.get('added'), 'error': a.get('error') or b.get('error')}
        v['replay_note'] = 'native std/alloc post-states differ' if differ else 'not replayable natively: no difference on the model state (floats / libm values of the model are not the real ones)'
        return True
    v['replay_note'] = 'no native replay for this role'
    return True


def main(tier):
    t0 = time.time()
    fs, dirs, info_s = fw.dump_all(['adsb_deku', 'rsadsb_common'], 'std')
    fa, _, info_a = fw.dump_all(['adsb_deku', 'rsadsb_common'], 'alloc')
    # dump_all names files by pid: keep both sets
    base = {'files_std': fs, 'files_alloc': fa, 'dirs': dirs}
    jobs = []
    lengths = [7, 14] if tier == 'quick' else [7, 8, 14, 15]
    for L in lengths:
        for s in fw.df_slices(L):
            jobs.append(dict(base, kind='decode', L=L, spec=s, display=('all' if tier == 'thorough' else True) if L in (7, 14) else False))
    jobs.append(dict(base, kind='cpr'))
    for k in ([1] if tier == 'quick' else [0, 1, 2]):
        for carrier in ('ADSB', 'TisB'):
            for mc in T.ME_CLASSES:
                if tier == 'quick' and mc.split(':')[0].split('.')[0] not in ('AirbornePositionBaroAltitude', 'AircraftIdentification', 'AirborneVelocity', 'NoPosition'):
                    continue
                jobs.append(dict(base, kind='action', k=k, frame='%s/%s' % (carrier, mc)))
        jobs.append(dict(base, kind='action', k=k, frame='ShortAirAirSurveillance'))
    jobs.sort(key=lambda j: -(j.get('L', 0) * 10 + (5 if any('Extract' in e for e in j.get('spec', [])) else 0)))
    results = fw.run_jobs('checks.c20', jobs, [], [])
    cnt = fw.merge_counts(results, ['paths', 'obligations', 'discharged', 'steps', 'solver_s'])
    samples = []
    for r in results:
        samples += r.get('samples', [])[:1]
    fn_calls = fw.merge_dict_counts(results, 'fn_calls')
    coverage = {
        'programs': 2, 'disagreements_checked': cnt['obligations'],
        'samples': samples[:10] or [{'note': 'none'}],
        'states': cnt['paths'], 'transitions': cnt['steps'],
        'obligations': cnt['obligations'], 'discharged': cnt['discharged'],
        'configurations': ['default (std)', '--no-default-features --features alloc'], 'lengths': lengths,
        'functions_encoded': len(fn_calls), 'mir_function_calls': dict(sorted(fn_calls.items(), key=lambda kv: -kv[1])[:30]),
        'builtins_hit': fw.merge_dict_counts(results, 'builtin_calls'),
        'solver': 'z3 ' + z3.get_version_string(), 'solver_s_obligations': round(cnt['solver_s'], 2),
        'mir': {'std': info_s, 'alloc': info_a},
        'explanation': 'the MIR of both feature configurations is executed symbolically on shared symbolic inputs; every pair of '
                       'jointly feasible paths yields a z3 obligation "outputs equal"',
    }
    for f in fs + fa:
        try:
            os.remove(f)
        except OSError:
            pass
    fw.finish('C20', tier, t0, results, coverage, ASSUME, level='translation_validation', replay_fn=replay)
