"""Reference definitions (Annex 10 / DO-260B), written independently of the implementation as z3 terms over the
frame bits.  These are the oracles the decoded values are compared against."""
import z3

from mirsym.values import *   # noqa


def bit(v, i):
    """bit i (0 = LSB) of bit-vector v as a 1-bit vector"""
    return z3.Extract(i, i, v)


def zext(v, w):
    return z3.ZeroExt(w - v.size(), v) if v.size() < w else v


def gray_to_bin(bits):
    """bits: list of 1-bit vectors, MSB first -> list of 1-bit vectors (binary), MSB first"""
    out = []
    acc = None
    for b in bits:
        acc = b if acc is None else acc ^ b
        out.append(acc)
    return out


def cat(bits):
    return bits[0] if len(bits) == 1 else z3.Concat(*bits)


def ac13_fields(c):
    """13-bit altitude / identity code, MSB first: C1 A1 C2 A2 C4 A4 M B1 Q B2 D2 B4 D4"""
    names = ['C1', 'A1', 'C2', 'A2', 'C4', 'A4', 'M', 'B1', 'Q', 'B2', 'D2', 'B4', 'D4']
    return {n: bit(c, 12 - i) for i, n in enumerate(names)}


def gillham_altitude_100ft(f):
    """Textbook Gillham decode from named bits (D1 = f['Q'] position).  Returns (valid: Bool, n: 32-bit count of
    100 ft increments above -1300 ft offset already applied, i.e. altitude = 100*n ft)."""
    one = z3.BitVecVal(1, 1)
    c_bits = gray_to_bin([f['C1'], f['C2'], f['C4']])
    n100 = zext(cat(c_bits), 32)
    # 7 -> 5 ; 5 and 6 (and 0) are not valid
    n100m = z3.If(n100 == 7, z3.BitVecVal(5, 32), z3.If(n100 == 5, z3.BitVecVal(7, 32), n100))
    c_zero = z3.And(f['C1'] != one, f['C2'] != one, f['C4'] != one)
    d1_set = f['Q'] == one
    n500 = zext(cat(gray_to_bin([f['D2'], f['D4'], f['A1'], f['A2'], f['A4'], f['B1'], f['B2'], f['B4']])), 32)
    odd = z3.Extract(0, 0, n500) == one
    n100f = z3.If(odd, 6 - n100m, n100m)
    total = n500 * 5 + n100f
    valid = z3.And(z3.Not(c_zero), z3.Not(d1_set), z3.ULE(n100m, 5), z3.UGE(total, 13))
    return valid, total - 13


def ac13_altitude(c):
    """Expected decoded altitude (u16 semantics: 0 = no altitude) of a 13-bit AC code; returns 16-bit term."""
    f = ac13_fields(c)
    one = z3.BitVecVal(1, 1)
    n11 = zext(z3.Concat(z3.Extract(12, 7, c), bit(c, 5), z3.Extract(3, 0, c)), 32)
    alt_q = n11 * 25 - 1000           # may be "negative" (wraps) when n11*25 <= 1000
    q_ok = z3.UGT(n11 * 25, 1000)
    valid, n = gillham_altitude_100ft(f)
    alt_g = n * 100
    g_ok = z3.And(valid, z3.UGT(alt_g, 0), z3.ULE(alt_g, 65535))
    zero = z3.BitVecVal(0, 16)
    return z3.If(c == 0, zero,
                 z3.If(f['M'] == one, zero,
                       z3.If(f['Q'] == one,
                             z3.If(z3.And(q_ok, z3.ULE(alt_q, 65535)), z3.Extract(15, 0, alt_q), zero),
                             z3.If(g_ok, z3.Extract(15, 0, alt_g), zero))))


def ac12_altitude(c12):
    """12-bit AC code (no M bit): C1 A1 C2 A2 C4 A4 B1 Q B2 D2 B4 D4.  Returns (is_some: Bool, value: 16-bit).
    An altitude of exactly 0 ft may be reported either way (is_some is then unconstrained: see `zero_ok`)."""
    one = z3.BitVecVal(1, 1)
    q = bit(c12, 4)
    n11 = zext(z3.Concat(z3.Extract(11, 5, c12), z3.Extract(3, 0, c12)), 32)
    alt_q = n11 * 25 - 1000
    q_ok = z3.UGT(n11 * 25, 1000)
    c13 = z3.Concat(z3.Extract(11, 6, c12), z3.BitVecVal(0, 1), z3.Extract(5, 0, c12))
    f = ac13_fields(c13)
    valid, n = gillham_altitude_100ft(f)
    alt_g = n * 100
    g_some = z3.And(valid, z3.ULE(alt_g, 65535))
    is_some = z3.If(q == one, q_ok, g_some)
    value = z3.If(q == one, z3.Extract(15, 0, alt_q), z3.Extract(15, 0, alt_g))
    return is_some, value


def squawk(c):
    """13-bit identity code -> 16-bit hex-coded ABCD"""
    f = ac13_fields(c)      # same interleaving; M position is X, Q position is D1
    a = z3.Concat(f['A4'], f['A2'], f['A1'])
    b = z3.Concat(f['B4'], f['B2'], f['B1'])
    cc = z3.Concat(f['C4'], f['C2'], f['C1'])
    d = z3.Concat(f['D4'], f['D2'], f['Q'])
    z = z3.BitVecVal(0, 1)
    return z3.Concat(z, a, z, b, z, cc, z, d)


def ia5_char(code6):
    """Annex 10 table 3-9 character set for aircraft identification; unassigned -> '#'.  Returns 32-bit char."""
    c = zext(code6, 32)
    letter = z3.And(z3.UGE(c, 1), z3.ULE(c, 26))
    digit = z3.And(z3.UGE(c, 48), z3.ULE(c, 57))
    return z3.If(letter, c + 64, z3.If(digit, c, z3.If(c == 32, z3.BitVecVal(32, 32), z3.BitVecVal(ord('#'), 32))))


POLY = 0xFFF409


def syndrome(bits_bv):
    """Mode S syndrome of an n-bit frame (n = 56 or 112): remainder of the first n-24 bits times x^24 modulo the
    generator 0x1FFF409, XOR the last 24 bits -- by bitwise long division."""
    n = bits_bv.size()
    rem = z3.BitVecVal(0, 24)
    for i in range(n - 24):
        b = z3.Extract(n - 1 - i, n - 1 - i, bits_bv)
        top = z3.Extract(23, 23, rem)
        fb = top ^ b
        rem = z3.Concat(z3.Extract(22, 0, rem), z3.BitVecVal(0, 1))
        rem = z3.If(fb == z3.BitVecVal(1, 1), rem ^ z3.BitVecVal(POLY, 24), rem)
    return rem ^ z3.Extract(23, 0, bits_bv)
