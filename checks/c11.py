"""C11: the text rendering of every decoded frame is the fixed per-type template (transcribed below from the README and
the strings pinned in tests/test.rs, word tables included), instantiated with that frame's own decoded values, with
optional lines exactly under their conditions.

<Frame as Display>::fmt is executed symbolically (MIR) on every decode path; its output is a list of segments
(literal text | value with format spec).  For every rendering path the solver proves: the path's branch conditions
imply the condition of exactly the template alternative with the same literal skeleton, and every value segment equals
the template's value term."""
import os
import sys
import time

import z3

from checks import framework as fw
from checks.framework import explore_from_bytes, Prover, model_bytes, leaf_sig, slice_constraints
from checks.decode_props import Acc, enum_is, me_of, known_excuses, excuse_term
from checks import decode_driver
from mirsym.values import *          # noqa
from mirsym.execu import Executor, ExecError, fp_cmp
from mirsym import builtins as _b
from mirsym import validate as V

HEX2 = 'lower_hex:f0x69000020:w2'
HEX4 = 'lower_hex:f0x69000020:w4'
HEX6 = 'lower_hex:f0x69000020:w6'
DBGX = 'debug:f0x62000020'
DISP = 'display'
F64 = z3.Float64()


# ------------------------------------------------------------------------------------ template DSL
class Lit:
    def __init__(self, s):
        self.s = s


class Val:
    def __init__(self, spec, v):
        self.spec = spec
        self.v = v


class If:
    def __init__(self, cond, a, b=()):
        self.cond = cond
        self.a = list(a)
        self.b = list(b)


class Word:
    """an enum rendered through a word table"""

    def __init__(self, prog, e, table):
        self.prog = prog
        self.e = e
        self.table = table


class Str:
    def __init__(self, rs):
        self.rs = rs


def expand(items):
    """-> list of (conds:[z3], segs:[('lit', s) | ('val', spec, v) | ('chars', (..))])"""
    alts = [([], [])]
    for it in items:
        new = []
        if isinstance(it, Lit):
            for c, s in alts:
                new.append((c, s + [('lit', it.s)]))
        elif isinstance(it, Val):
            for c, s in alts:
                new.append((c, s + [('val', it.spec, it.v)]))
        elif isinstance(it, Str):
            segs = []
            for sg in it.rs.segs:
                segs.append(('lit', sg) if isinstance(sg, str) else (('chars', sg[1]) if sg[0] == 'chars' else ('val', sg[1], sg[2])))
            for c, s in alts:
                new.append((c, s + segs))
        elif isinstance(it, If):
            cond = mk_bool(it.cond)
            if cond is True:
                subs = [([], x) for x in [expand(it.a)]]
                for c, s in alts:
                    for c2, s2 in expand(it.a):
                        new.append((c + c2, s + s2))
            elif cond is False:
                for c, s in alts:
                    for c2, s2 in expand(it.b):
                        new.append((c + c2, s + s2))
            else:
                for c, s in alts:
                    for c2, s2 in expand(it.a):
                        new.append((c + [cond] + c2, s + s2))
                    for c2, s2 in expand(it.b):
                        new.append((c + [z3.Not(cond)] + c2, s + s2))
        elif isinstance(it, Word):
            groups = {}
            for var, w in it.table.items():
                groups.setdefault(w, []).append(var)
            for w, vs in groups.items():
                cs = [enum_is(it.prog, it.e, v) for v in vs]
                if any(c is True for c in cs):
                    cond = True
                else:
                    cs = [c for c in cs if c is not False]
                    cond = z3.Or(*cs) if cs else False
                if cond is False:
                    continue
                for c, s in alts:
                    new.append((c + ([] if cond is True else [cond]), s + [('lit', w)]))
        else:
            raise ExecError('bad template item %r' % (it,))
        alts = new
    return alts


DEFAULT_FLAGS = 0x60000020      # fill ' ', no alignment / sign / alternate / zero-pad / debug-hex bits


def norm_spec(spec, v):
    """canonical format spec of a value segment: for integers `{:x?}` prints what `{:x}` prints and `{:?}` what `{}`
    prints (core::fmt's Debug for integers dispatches on the debug-hex flags); default flags are dropped"""
    parts = spec.split(':')
    kind, flags, rest = parts[0], None, []
    for p_ in parts[1:]:
        if p_.startswith('f'):
            flags = int(p_[1:], 16)
        else:
            rest.append(p_)
    if isinstance(v, Int) and kind == 'debug':
        fl = DEFAULT_FLAGS if flags is None else flags
        if fl & (1 << 25):
            kind, fl = 'lower_hex', fl & ~(1 << 25)
        elif fl & (1 << 26):
            kind, fl = 'upper_hex', fl & ~(1 << 26)
        else:
            kind = 'display'
        flags = fl
    if flags is not None and flags != DEFAULT_FLAGS:
        rest.insert(0, 'f%#x' % flags)
    return ':'.join([kind] + rest)


def norm(segs):
    """merge adjacent literals, drop empty ones, canonical specs"""
    out = []
    for s in segs:
        if s[0] == 'val':
            s = ('val', norm_spec(s[1], s[2]), s[2])
            if isinstance(s[2], Int) and s[1].startswith('lower_hex') and ':w' in s[1]:
                # zero-padded hex of a value that fits its width = exactly that many hex digits: compared as
                # characters, so `{:02x}{:02x}{:02x}` of three bytes and `{:06x}` of the 24-bit value are the same text
                from checks.c04 import seg_hex_chars
                cs = seg_hex_chars(s)
                if cs is not None:
                    s = ('chars', tuple(Int('char', c) for c in cs))
        if s[0] == 'chars' and all(isinstance(c, Int) and c.concrete for c in s[1]):
            s = ('lit', ''.join(chr(c.v) for c in s[1]))
        if s[0] == 'chars' and out and out[-1][0] == 'chars':
            out[-1] = ('chars', tuple(out[-1][1]) + tuple(s[1]))
            continue
        if s[0] == 'lit':
            if not s[1]:
                continue
            if out and out[-1][0] == 'lit':
                out[-1] = ('lit', out[-1][1] + s[1])
                continue
        out.append(s)
    return out


def code_segs(rs):
    out = []
    for sg in rs.segs:
        if isinstance(sg, str):
            out.append(('lit', sg))
        elif sg[0] == 'chars':
            out.append(('chars', sg[1]))
        else:
            out.append(('val', sg[1], sg[2]))
    return norm(out)


def skeleton(segs):
    return tuple((s[0], s[1]) if s[0] in ('lit', 'val') else ('chars', len(s[1])) for s in segs)


def val_eq(a, b):
    if isinstance(a, Int) and isinstance(b, Int):
        if a.ty != b.ty:
            return z3.BoolVal(False)
        return to_bv(a) == to_bv(b)
    if isinstance(a, Flt) and isinstance(b, Flt):
        return to_fp(a) == to_fp(b) if a.ty == b.ty else z3.BoolVal(False)
    if isinstance(a, (bool, z3.BoolRef)) and isinstance(b, (bool, z3.BoolRef)):
        return to_z3bool(a) == to_z3bool(b)
    if isinstance(a, StrLit) and isinstance(b, StrLit):
        return z3.BoolVal(a.s == b.s)
    return z3.BoolVal(False)


# ------------------------------------------------------------------------------------ word tables (README / pinned strings)
CAP_WORDS = {'AG_UNCERTAIN': 'uncertain1', 'Reserved': 'reserved', 'AG_GROUND': 'ground', 'AG_AIRBORNE': 'airborne',
             'AG_UNCERTAIN2': 'uncertain2', 'AG_UNCERTAIN3': 'airborne?'}
FS_WORDS = {'NoAlertNoSPIAirborne': 'airborne?', 'AlertSPIAirborneGround': 'airborne?', 'NoAlertSPIAirborneGround': 'airborne?',
            'NoAlertNoSPIOnGround': 'ground?', 'AlertNoSPIAirborne': 'airborne', 'AlertNoSPIOnGround': 'ground',
            'Reserved': 'reserved', 'NotAssigned': 'reserved'}
CFT_WORDS = {'ADSB_ES_NT': '(ADS-B)', 'ADSB_ES_NT_ALT': '(ADS-B)', 'TISB_COARSE': '(TIS-B)', 'TISB_ADSB_RELAY': '(TIS-B)',
             'TISB_FINE': '(TIS-B)', 'TISB_MANAGE': '(ADS-R)', 'TISB_ADSB': '(ADS-R)', 'Reserved': '(unknown addressing scheme)'}
EMERG_WORDS = {'None': 'no emergency', 'General': 'general', 'Lifeguard': 'lifeguard', 'MinimumFuel': 'minimum fuel',
               'NoCommunication': 'no communication', 'UnlawfulInterference': 'unflawful interference',
               'DownedAircraft': 'downed aircraft', 'Reserved2': 'reserved2'}
TC_WORDS = {'D': 'D', 'C': 'C', 'B': 'B', 'A': 'A'}
CPR_WORDS = {'Even': 'even', 'Odd': 'odd'}
SIGN_WORDS = {'Positive': '', 'Negative': '-'}
VRS_WORDS = {'BarometricPressureAltitude': 'barometric', 'GeometricAltitude': 'GNSS'}


def icao_vals(ic):
    return [Val(HEX2, b) for b in ic.f[0].e]


def gt0(x):
    return z3.UGT(to_bv(x), 0) if not x.concrete else x.v > 0


def eq1(x):
    return to_bv(x) == 1 if not x.concrete else x.v == 1


def ne0(x):
    return to_bv(x) != 0 if not x.concrete else x.v != 0


def bcond(b):
    return b


def altitude_display(prog, A, alt):
    a = A.f(alt, 'alt')
    some = opt_discr(a) == z3.BitVecVal(1, 64)
    return [Lit('  Altitude:      '),
            If(some, [Val(DISP, a.f[0]) if a.f else Lit('?'), Lit(' ft barometric')], [Lit('None')]),
            Lit('\n  CPR type:      Airborne\n  CPR odd flag:  '), Word(prog, A.f(alt, 'odd_flag'), CPR_WORDS),
            Lit('\n  CPR latitude:  ('), Val(DISP, A.f(alt, 'lat_cpr')), Lit(')\n  CPR longitude: ('), Val(DISP, A.f(alt, 'lon_cpr')), Lit(')\n')]


def opmode(A, om):
    return [If(bcond(A.f(om, 'tcas_ra_active')), [Lit(' TCAS')]), If(bcond(A.f(om, 'ident_switch_active')), [Lit(' IDENT_SWITCH_ACTIVE')]),
            If(bcond(A.f(om, 'reserved_recv_atc_service')), [Lit(' ATC')]), If(bcond(A.f(om, 'single_antenna_flag')), [Lit(' SAF')]),
            If(ne0(A.f(om, 'system_design_assurance')), [Lit(' SDA='), Val(DISP, A.f(om, 'system_design_assurance'))])]


def version_val(ver):
    d = enum_discr_bv(ver)
    return Val(DISP, mk_int('u8', z3.Extract(7, 0, d)) if not z3.is_bv_value(d) else Int('u8', d.as_long()))


def me_template(ctx, me, icao, addr_type, cap_item, transponder, calc):
    prog, A = ctx['prog'], ctx['A']
    head = lambda title: [Lit(' Extended Squitter' + transponder + title + '\n')]       # noqa: E731
    addr = [Lit('  Address:       ')] + icao_vals(icao) + [Lit(' ')] + addr_type + [Lit('\n')]
    ag = [Lit('  Air/Ground:    ')] + cap_item + [Lit('\n')]
    v = me.variant
    if v == 'NoPosition':
        return head('No position information') + addr + ag
    if v == 'AircraftIdentification':
        i = me.f[0]
        return (head('Aircraft identification and category') + addr + ag + [Lit('  Ident:         '), Str(A.f(i, 'cn')), Lit('\n  Category:      '),
                Word(prog, A.f(i, 'tc'), TC_WORDS), Val(DISP, A.f(i, 'ca')), Lit('\n')])
    if v == 'SurfacePosition':
        return head('Surface position') + addr
    if v == 'AirbornePositionBaroAltitude':
        return head('Airborne position (barometric altitude)') + addr + ag + altitude_display(prog, A, me.f[0])
    if v == 'AirbornePositionGNSSAltitude':
        return (head('Airborne position (GNSS altitude)') + [Lit('  Address:      ')] + icao_vals(icao) + [Lit(' ')] + addr_type + [Lit('\n')]
                + altitude_display(prog, A, me.f[0]))
    if v == 'AirborneVelocity':
        av = me.f[0]
        sub = A.f(av, 'sub_type')
        if sub.variant == 'GroundSpeedDecoding':
            t = head('Airborne velocity over ground, subsonic') + addr + ag + [Lit('  GNSS delta:    '), Word(prog, A.f(av, 'gnss_sign'), SIGN_WORDS),
                                                                              Val(DISP, A.f(av, 'gnss_baro_diff')), Lit(' ft\n')]
            if calc is None:
                raise ExecError('no calculate() result for a ground speed report')
            some = opt_discr(calc) == z3.BitVecVal(1, 64)
            if calc.f:
                h, s, vr = calc.f[0].f
                hv = Flt('f64', z3.fpRoundToIntegral(z3.RTP(), z3.fpFPToFP(z3.RNE(), to_fp(h), F64)))
                sv = Flt('f64', z3.fpRoundToIntegral(z3.RTN(), to_fp(s)))
                yes = [Lit('  Heading:       '), Val(DISP, hv), Lit('\n  Speed:         '), Val(DISP, sv), Lit(' kt groundspeed\n  Vertical rate: '),
                       Val(DISP, vr), Lit(' ft/min '), Word(prog, A.f(av, 'vrate_src'), VRS_WORDS), Lit('\n')]
            else:
                yes = [Lit('?')]
            return t + [If(some, yes, [Lit('  Invalid packet\n')])]
        if sub.variant == 'AirspeedDecoding':
            a = sub.f[0]
            vv = A.f(av, 'vrate_value')
            rate = mk_int('u16', (to_bv(vv) - 1) * 64)
            return (head('Airspeed and heading, subsonic') + addr + ag + [Lit('  IAS:           '), Val(DISP, A.f(a, 'airspeed')), Lit(' kt\n'),
                    If(gt0(vv), [Lit('  Baro rate:     '), Word(prog, A.f(av, 'vrate_sign'), SIGN_WORDS), Val(DISP, rate), Lit(' ft/min\n')]),
                    Lit('  NACv:          '), Val(DISP, A.f(av, 'nac_v')), Lit('\n')])
        return head('Airborne Velocity status (reserved)') + addr
    if v in ('Reserved0', 'Reserved1'):
        return head('Unknown') + addr + ag
    if v == 'SurfaceSystemStatus':
        return head('Reserved for surface system status') + addr + ag
    if v == 'AircraftStatus':
        s = me.f[0]
        return (head('Emergency/priority status') + addr + ag + [Lit('  Squawk:        '), Val(DBGX, A.f(s, 'squawk')), Lit('\n  Emergency/priority:    '),
                Word(prog, A.f(s, 'emergency_state'), EMERG_WORDS), Lit('\n')])
    if v == 'TargetStateAndStatusInformation':
        t = me.f[0]
        return (head('Target state and status (V2)') + addr + ag + [
            Lit('  Target State and Status:\n    Target altitude:   MCP, '), Val(DISP, A.f(t, 'altitude')), Lit(' ft\n    Altimeter setting: '),
            Val(DISP, A.f(t, 'qnh')), Lit(' millibars\n'),
            If(bcond(A.f(t, 'is_heading')), [Lit('    Target heading:    '), Val(DISP, A.f(t, 'heading')), Lit('\n')]),
            If(bcond(A.f(t, 'tcas')), [Lit('    ACAS:              operational '), If(bcond(A.f(t, 'autopilot')), [Lit('autopilot ')]),
                                       If(bcond(A.f(t, 'vnac')), [Lit('vnav ')]), If(bcond(A.f(t, 'alt_hold')), [Lit('altitude-hold ')]),
                                       If(bcond(A.f(t, 'approach')), [Lit(' approach')]), Lit('\n')],
               [Lit('    ACAS:              NOT operational\n')]),
            Lit('    NACp:              '), Val(DISP, A.f(t, 'nacp')), Lit('\n    NICbaro:           '), Val(DISP, A.f(t, 'nicbaro')),
            Lit('\n    SIL:               '), Val(DISP, A.f(t, 'sil')), Lit(' (per sample)\n    QNH:               '), Val(DISP, A.f(t, 'qnh')),
            Lit(' millibars\n')])
    if v == 'AircraftOperationalCoordination':
        return head('Aircraft Operational Coordination') + addr
    if v == 'AircraftOperationStatus':
        o = me.f[0]
        hrd = lambda x: If(eq1(A.f(x, 'horizontal_reference_direction')), [Lit('   Heading reference:  magnetic north\n')],     # noqa: E731
                           [Lit('   Heading reference:  true north\n')])
        if o.variant == 'Airborne':
            a = o.f[0]
            cc = A.f(a, 'capability_class')
            return (head('Aircraft operational status (airborne)') + addr + ag + [
                Lit('  Aircraft Operational Status:\n   Version:            '), version_val(A.f(a, 'version_number')), Lit('\n   Capability classes:'),
                If(eq1(A.f(cc, 'acas')), [Lit(' ACAS')]), If(eq1(A.f(cc, 'cdti')), [Lit(' CDTI')]), If(eq1(A.f(cc, 'arv')), [Lit(' ARV')]),
                If(eq1(A.f(cc, 'ts')), [Lit(' TS')]), If(eq1(A.f(cc, 'tc')), [Lit(' TC')]), Lit('\n   Operational modes: ')] + opmode(A, A.f(a, 'operational_mode')) + [
                Lit('\n   NIC-A:              '), Val(DISP, A.f(a, 'nic_supplement_a')), Lit('\n   NACp:               '),
                Val(DISP, A.f(a, 'navigational_accuracy_category')), Lit('\n   GVA:                '), Val(DISP, A.f(a, 'geometric_vertical_accuracy')),
                Lit('\n   SIL:                '), Val(DISP, A.f(a, 'source_integrity_level')), Lit(' (per hour)\n   NICbaro:            '),
                Val(DISP, A.f(a, 'barometric_altitude_integrity')), Lit('\n'), hrd(a)])
        if o.variant == 'Surface':
            s = o.f[0]
            cc = A.f(s, 'capability_class')
            return (head('Aircraft operational status (surface)') + addr + ag + [
                Lit('  Aircraft Operational Status:\n   Version:            '), version_val(A.f(s, 'version_number')), Lit('\n   NIC-A:              '),
                Val(DISP, A.f(s, 'nic_supplement_a')), Lit('\n   NIC-C:              '), Val(DISP, A.f(cc, 'nic_supplement_c')),
                Lit('\n   NACv:               '), Val(DISP, A.f(cc, 'nac_v')), Lit('\n   Capability classes:'),
                If(ne0(A.f(s, 'lw_codes')), [Lit(' L/W='), Val(DISP, A.f(s, 'lw_codes')), Lit('\n')], [Lit('\n')]),
                Lit('   Operational modes: ')] + opmode(A, A.f(s, 'operational_mode')) + [
                Lit('\n   NACp:               '), Val(DISP, A.f(s, 'navigational_accuracy_category')), Lit('\n   SIL:                '),
                Val(DISP, A.f(s, 'source_integrity_level')), Lit(' (per hour)\n   NICbaro:            '),
                Val(DISP, A.f(s, 'barometric_altitude_integrity')), Lit('\n'), hrd(s)])
        return head('Aircraft operational status (reserved)') + addr
    raise ExecError('no template for ME variant ' + v)


def bds_template(ctx, bds):
    v = bds.variant
    if v == 'Empty':
        return [Lit('Comm-B format: empty response\n')]
    if v == 'AircraftIdentification':
        return [Lit('Comm-B format: BDS2,0 Aircraft identification\n  Ident:         '), Str(bds.f[0]), Lit('\n')]
    if v == 'DataLinkCapability':
        return [Lit('Comm-B format: BDS1,0 Datalink capabilities\n')]
    return [Lit('Comm-B format: unknown format\n')]


def frame_template(ctx, fr, calc):
    prog, A = ctx['prog'], ctx['A']
    df = A.f(fr, 'df')
    crc = A.f(fr, 'crc')
    v = df.variant
    if v == 'ShortAirAirSurveillance':
        alt = A.f(df, 'altitude').f[0]
        return [Lit(' Short Air-Air Surveillance\n  ICAO Address:  '), Val(HEX6, crc), Lit(' (Mode S / ADS-B)\n'),
                If(gt0(alt), [Lit('  Air/Ground:    airborne?\n  Altitude:      '), Val(DISP, alt), Lit(' ft barometric\n')], [Lit('  Air/Ground:    ground\n')])]
    if v == 'SurveillanceAltitudeReply':
        ac = A.f(df, 'ac').f[0]
        return [Lit(' Surveillance, Altitude Reply\n  ICAO Address:  '), Val(HEX6, crc), Lit(' (Mode S / ADS-B)\n  Air/Ground:    '),
                Word(prog, A.f(df, 'fs'), FS_WORDS), Lit('\n'), If(gt0(ac), [Lit('  Altitude:      '), Val(DISP, ac), Lit(' ft barometric\n')])]
    if v == 'SurveillanceIdentityReply':
        return [Lit(' Surveillance, Identity Reply\n  ICAO Address:  '), Val(HEX6, crc), Lit(' (Mode S / ADS-B)\n  Air/Ground:    '),
                Word(prog, A.f(df, 'fs'), FS_WORDS), Lit('\n  Identity:      '), Val(HEX4, A.f(df, 'id').f[0]), Lit('\n')]
    if v == 'AllCallReply':
        return ([Lit(' All Call Reply\n  ICAO Address:  ')] + icao_vals(A.f(df, 'icao')) + [Lit(' (Mode S / ADS-B)\n  Air/Ground:    '),
                Word(prog, A.f(df, 'capability'), CAP_WORDS), Lit('\n')])
    if v == 'LongAirAir':
        alt = A.f(df, 'altitude').f[0]
        return [Lit(' Long Air-Air ACAS\n  ICAO Address:  '), Val(HEX6, crc), Lit(' (Mode S / ADS-B)\n'),
                If(gt0(alt), [Lit('  Air/Ground:    airborne?\n  Baro altitude: '), Val(DISP, alt), Lit(' ft\n')], [Lit('  Air/Ground:    ground\n')])]
    if v == 'ExtendedQuitterMilitaryApplication':
        return []
    if v == 'CommBAltitudeReply':
        return ([Lit(' Comm-B, Altitude Reply\n  ICAO Address:  '), Val(DBGX, crc), Lit(' (Mode S / ADS-B)\n  Altitude:      '),
                 Val(DISP, A.f(df, 'alt').f[0]), Lit(' ft\n  ')] + bds_template(ctx, A.f(df, 'bds')))
    if v == 'CommBIdentityReply':
        return ([Lit(' Comm-B, Identity Reply\n    ICAO Address:  '), Val(DBGX, crc), Lit(' (Mode S / ADS-B)\n    Squawk:        '),
                 Val(DBGX, A.f(df, 'id')), Lit('\n    ')] + bds_template(ctx, A.f(df, 'bds')))
    if v == 'ModeSExtendedSquitter':
        return [Lit(' Mode S Extended Squitter Message\n    ICAO Address:     '), Val(DBGX, crc), Lit(' (Mode S / ADS-B)\n')]
    if v == 'ADSB':
        ad = df.f[0]
        return me_template(ctx, A.f(ad, 'me'), A.f(ad, 'icao'), [Lit('(Mode S / ADS-B)')], [Word(prog, A.f(ad, 'capability'), CAP_WORDS)], ' ', calc)
    if v == 'TisB':
        cf = A.f(df, 'cf')
        return me_template(ctx, A.f(cf, 'me'), A.f(cf, 'aa'), [Word(prog, A.f(cf, 't'), CFT_WORDS)], [Lit('airborne?')], ' (Non-Transponder) ', calc)
    raise ExecError('no template for DF variant ' + v)


# ------------------------------------------------------------------------------------ job
def run_job(prog, job):
    L, spec = job['L'], job['spec']
    ex, bs, leaves = explore_from_bytes(prog, L, spec)
    A = Acc(prog)
    res = {'paths': 0, 'violations': [], 'samples': [], 'sigs': {}, 'steps': ex.stats['steps'], 'fn_calls': dict(ex.stats['fn_calls']),
           'builtin_calls': dict(ex.stats['builtin_calls']), 'display_paths': 0}
    ctx = {'prog': prog, 'A': A, 'bs': bs, 'L': L, 'job': job, 'res': res}
    P = Prover(base=slice_constraints(spec, bs))
    calc_fn = prog.items[prog.find_free_fn('AirborneVelocity::calculate')]
    done = {}
    for l in leaves:
        fr = l.value.f[0] if (l.kind == 'return' and l.value.variant == 'Ok') else None
        if fr is None:
            continue
        sig = leaf_sig(l)
        res['sigs'][sig] = res['sigs'].get(sig, 0) + 1
        if job.get('one_per_class') and done.get(sig):
            continue
        done[sig] = True
        res['paths'] += 1
        df = A.f(fr, 'df')
        # known input classes (CA reserved) shift everything: excused as a whole
        m_ = me_of({'A': A}, df)
        calc = None
        if m_ is not None and m_.variant == 'AirborneVelocity':
            ex3 = Executor(prog, _b.B)
            cl = ex3.run(calc_fn, [Ref(('V', m_.f[0]))], pc=list(l.pc))
            for c in cl:
                if c.kind != 'return':
                    continue
                extra = c.pc[len(l.pc):]
                g = z3.And(*extra) if extra else z3.BoolVal(True)
                calc = c.value if calc is None else ite_value(g, c.value, calc)
        try:
            tmpl = frame_template(ctx, fr, calc)
        except ExecError as e:
            res['inconclusive'] = 'template construction failed for %s: %s' % (sig, e)
            continue
        alts = [(c, norm(s)) for c, s in expand(tmpl)]
        ex2 = Executor(prog, _b.B)
        ds = ex2.run_builtin_call('<Frame as ToString>::to_string', [Ref(('V', fr))], pc=list(l.pc))
        for k, v in ex2.stats['fn_calls'].items():
            res['fn_calls'][k] = res['fn_calls'].get(k, 0) + v
        for k, v in ex2.stats['builtin_calls'].items():
            res['builtin_calls'][k] = res['builtin_calls'].get(k, 0) + v
        if ex2.stats['unknown']:
            res['inconclusive'] = 'solver unknown while exploring Display'
        by_skel = {}
        for c, s in alts:
            by_skel.setdefault(skeleton(s), []).append((c, s))
        covered = []
        for d in ds:
            res['display_paths'] += 1
            P.set_path(d.pc)
            if d.kind != 'return':
                continue       # panics are C01's subject
            got = code_segs(d.value)
            if df.variant != 'ExtendedQuitterMilitaryApplication':
                P.obligations += 1
                if got:
                    P.discharged += 1
                else:
                    violation(ctx, sig + ':empty-report', P.feasible(), 'a supported frame type renders an empty report', d)
            cands = by_skel.get(skeleton(got))
            if not cands:
                P.obligations += 1
                violation(ctx, sig + ':template', P.feasible(), 'rendered text does not follow the template: %r' % (render_preview(got),), d)
                continue
            claims = []
            for c, s in cands:
                parts = list(c)
                for x, y in zip(got, s):
                    if x[0] == 'val':
                        parts.append(val_eq(x[2], y[2]))
                    elif x[0] == 'chars':
                        parts += [zx32(p) == zx32(q) for p, q in zip(x[1], y[1])]
                claims.append(z3.And(*parts) if parts else z3.BoolVal(True))
            claim = z3.Or(*claims) if len(claims) > 1 else claims[0]
            obligation(ctx, P, sig + ':values-and-conditions', claim,
                       'a printed value is not the decoded one, or a line appears under the wrong condition: %r' % (render_preview(got),), d)
    res['obligations'] = P.obligations
    res['discharged'] = P.discharged
    res['solver_s'] = P.solver_s
    if P.timeouts:
        res['inconclusive'] = '%d solver timeouts' % P.timeouts
    for l in leaves[:2]:
        if l.kind == 'return' and l.value.variant == 'Ok':
            P.set_path(l.pc)
            m = P.feasible()
            if m is not None:
                res['samples'].append({'frame': model_bytes(m, bs).hex(), 'path': leaf_sig(l)})
    return res


def zx32(x):
    v = to_bv(x)
    return z3.ZeroExt(32 - v.size(), v) if v.size() < 32 else v


def render_preview(segs):
    out = []
    for s in segs:
        if s[0] == 'lit':
            out.append(s[1])
        elif s[0] == 'chars':
            out.append('<%d chars>' % len(s[1]))
        else:
            out.append('{%s}' % s[1].split(':')[0])
    return ''.join(out)[:400]


def obligation(ctx, P, role, claim, detail, dleaf):
    m = P.prove(claim)
    if m is None:
        return
    ks = known_excuses({'bs': ctx['bs'], 'L': ctx['L']}, 'C11', role)
    if ks and m != 'unknown':
        terms = [excuse_term(ctx, k) for k in ks]
        m2 = P.prove(z3.Or(claim, *terms), count=False)
        if m2 is None:
            for k, t in zip(ks, terms):
                if z3.is_true(m.eval(t, model_completion=True)):
                    violation(ctx, role, m, detail, dleaf, {'known_id': k.get('id')})
                    return
        else:
            m = m2
    violation(ctx, role, m, detail, dleaf)


def violation(ctx, role, m, detail, dleaf, extra=None):
    res = ctx['res']
    if m == 'unknown' or m is None:
        res['inconclusive'] = 'solver unknown on ' + role
        return
    w = model_bytes(m, ctx['bs']).hex()
    v = {'property': 'C11', 'role': role, 'witness': w, 'detail': detail, 'job': ctx['job'], 'replay_kind': 'decode'}
    try:
        v['predicted_display'] = V.render_string(dleaf.value, m) if dleaf is not None and dleaf.kind == 'return' else None
        if v['predicted_display'] is not None and _mentions_libm(dleaf.value):
            # numbers derived from atan2 / hypot are model values of uninterpreted functions: the exact text cannot
            # be predicted, the replay only requires that the witness decodes and renders natively
            v['predicted_display'] = None
    except Exception:
        v['predicted_display'] = None
    if extra:
        v.update(extra)
    res['violations'].append(v)


def _mentions_libm(rs):
    seen = set()
    stack = []
    for sg in getattr(rs, 'segs', ()):
        if not isinstance(sg, str) and sg[0] == 'val' and isinstance(sg[2], (Int, Flt)) and not sg[2].concrete:
            stack.append(sg[2].v)
    while stack:
        t = stack.pop()
        if not z3.is_expr(t) or t.get_id() in seen:
            continue
        seen.add(t.get_id())
        if z3.is_app(t):
            if t.decl().name().startswith(('libm_', 'stdm_')):
                return True
            stack.extend(t.children())
    return False


def replay(v):
    """the real build renders the witness frame exactly as the encoder predicted (libm-dependent numbers excepted)"""
    w = v.get('witness')
    if not w:
        return None
    ok = True
    for profile in ('debug', 'release'):
        r = V.native(['decode ' + w], profile)[0]
        v.setdefault('native', {})[profile] = r.get('display')
        pd = v.get('predicted_display')
        if pd is None or 'NaN' in pd:
            ok &= bool(r.get('ok'))
        else:
            ok &= (r.get('display') == pd)
    return ok


def main(tier):
    t0 = time.time()
    files, dirs, info = fw.dump_all(['adsb_deku'])
    jobs = []
    lengths = [7, 14] if tier == 'quick' else [7, 8, 14, 15]
    for L in lengths:
        for s in fw.df_slices(L):
            ident = any('Extract' in e for e in s)
            jobs.append({'L': L, 'spec': s, 'one_per_class': False})
    jobs.sort(key=lambda j: -(j['L'] * 10 + (5 if any('Extract' in e for e in j['spec']) else 0)))
    V.build_replay('debug')
    V.build_replay('release')
    results = fw.run_jobs('checks.c11', jobs, files, dirs)
    for f in files:
        try:
            os.remove(f)
        except OSError:
            pass
    cnt = fw.merge_counts(results, ['paths', 'obligations', 'discharged', 'steps', 'solver_s', 'display_paths'])
    samples = []
    for r in results:
        samples += r.get('samples', [])[:1]
    fn_calls = fw.merge_dict_counts(results, 'fn_calls')
    coverage = {
        'states': cnt['display_paths'], 'transitions': cnt['steps'], 'traces_validated_against_impl': 0, 'samples': samples[:10] or [{'note': 'none'}],
        'obligations': cnt['obligations'], 'discharged': cnt['discharged'], 'decode_paths': cnt['paths'], 'rendering_paths': cnt['display_paths'],
        'lengths': lengths, 'path_classes': fw.merge_dict_counts(results, 'sigs'),
        'functions_encoded': len(fn_calls), 'mir_function_calls': dict(sorted(fn_calls.items(), key=lambda kv: -kv[1])[:40]),
        'builtins_hit': fw.merge_dict_counts(results, 'builtin_calls'),
        'solver': 'z3 ' + z3.get_version_string(), 'solver_s_obligations': round(cnt['solver_s'], 2), 'mir': info,
        'explanation': 'every rendering path of every decode path: literal skeleton must be one of the template alternatives; the solver proves '
                       'branch conditions and printed values equal to the template (values are terms of the decoded frame)',
    }
    assume = decode_driver.ASSUME + [
        'the characters core::fmt produces for a value under a format spec are trusted; the check decides which value and which spec is printed',
        'templates and word tables are transcribed in checks/c11.py from the README and the strings pinned in libadsb_deku/tests/test.rs',
        'heading/speed are ceil/floor of the calculate() terms (libm atan2/hypot uninterpreted)']
    fw.finish('C11', tier, t0, results, coverage, assume, level='model_checking', replay_fn=replay)
