"""Tracker properties C12/C13/C14/C15 (+ the tracker part of C01): one inductive step of the real
`Airplanes::action` / `prune` / view functions, executed symbolically from an arbitrary valid tracker state, compared
by the solver with a short reference model of the step (written here, independent of the MIR).

Representation invariant assumed on the pre-state (and proved to be re-established on the post-state):
  I1  1 <= num_messages < u32::MAX                                (the count of one aircraft never reaches 2^32-1)
  I2  altitudes[0] holds an Even report, altitudes[1] an Odd one, when present
  J   kilo_distance.is_some() == position.is_some()
"""
import json
import os
import sys
import time

import re
import z3
from mirsym import coll_bi

from checks import framework as fw
from checks.framework import explore_from_bytes, Prover, model_bytes, leaf_sig
from checks.decode_props import Acc, value_eq, enum_is, me_of
from mirsym.values import *          # noqa
from mirsym.execu import Executor, ExecError, fp_definitions, fp_atom, fp_cmp
from mirsym import builtins as _b
from mirsym import float_bi
from mirsym import validate as V

F64 = z3.Float64()
F32 = z3.Float32()


# ------------------------------------------------------------------------------------ symbolic state builders
class Sym:
    def __init__(self, prog):
        self.S = prog.src.structs
        self.prog = prog
        self.assume = []

    def icao(self, tag):
        return Struct('ICAO', (Arr([Int('u8', z3.BitVec('%s_%d' % (tag, i), 8)) for i in range(3)]),))

    def opt(self, tag, payload):
        return Enum('Option', None, (payload,), discr=z3.ZeroExt(63, z3.BitVec(tag + '?', 1)))

    def altitude(self, tag, parity=None):
        odd = z3.BitVec(tag + '_odd', 1)
        if parity is not None:
            self.assume.append(odd == parity)
        vals = {'tc': Int('u8', z3.ZeroExt(3, z3.BitVec(tag + '_tc', 5))),
                'ss': Enum('SurveillanceStatus', None, (), discr=z3.ZeroExt(62, z3.BitVec(tag + '_ss', 2))),
                'saf_or_imf': Int('u8', z3.ZeroExt(7, z3.BitVec(tag + '_saf', 1))),
                'alt': self.opt(tag + '_alt', Int('u16', z3.BitVec(tag + '_altv', 16))),
                't': z3.Bool(tag + '_t'),
                'odd_flag': Enum('CPRFormat', None, (), discr=z3.ZeroExt(63, odd)),
                'lat_cpr': Int('u32', z3.ZeroExt(15, z3.BitVec(tag + '_lat', 17))),
                'lon_cpr': Int('u32', z3.ZeroExt(15, z3.BitVec(tag + '_lon', 17)))}
        return Struct('Altitude', [vals[n] for n in self.S['Altitude']])

    def f64(self, tag, nan_ok=False):
        v = z3.FP(tag, F64)
        if not nan_ok:
            self.assume.append(z3.Not(z3.fpIsNaN(v)))
        return Flt('f64', v)

    def f32(self, tag):
        return Flt('f32', z3.FP(tag, F32))

    def pos(self, tag):
        return Struct('Position', (self.f64(tag + '_plat', True), self.f64(tag + '_plon', True)))

    def time(self, tag):
        n = z3.BitVec(tag + '_n', 32)
        self.assume.append(z3.ULT(n, 1000000000))
        return Struct('SystemTime', (Int('u64', z3.ZeroExt(2, z3.BitVec(tag + '_s', 62))), Int('u32', n)))

    def coor(self, tag, invariant=True):
        names = self.S['AirplaneCoor']
        posd = z3.BitVec(tag + '_pos?', 1)
        kdd = z3.BitVec(tag + '_kd?', 1)
        if invariant:
            self.assume.append(posd == kdd)                                   # J
        vals = {'altitudes': Arr([self.opt(tag + '_a0', self.altitude(tag + '_a0', 0 if invariant else None)),
                                  self.opt(tag + '_a1', self.altitude(tag + '_a1', 1 if invariant else None))]),
                'position': Enum('Option', None, (self.pos(tag),), discr=z3.ZeroExt(63, posd)),
                'last_time': self.opt(tag + '_lt', self.time(tag + '_ltv')),
                'kilo_distance': Enum('Option', None, (self.f64(tag + '_kd', True),), discr=z3.ZeroExt(63, kdd))}
        return Struct('AirplaneCoor', [vals[n] for n in names])

    def state(self, tag, track_len=1):
        names = self.S['AirplaneState']
        nm = z3.BitVec(tag + '_nm', 32)
        self.assume.append(z3.UGE(nm, 1))                                      # I1
        self.assume.append(z3.ULT(nm, 0xFFFFFFFF))
        cs = RString((('chars', tuple(Int('char', z3.ZeroExt(24, z3.BitVec('%s_cs%d' % (tag, i), 8))) for i in range(2))),))
        vals = {'coords': self.coor(tag), 'squawk': self.opt(tag + '_sq', Int('u32', z3.BitVec(tag + '_sqv', 32))),
                'callsign': self.opt(tag + '_cs', cs),
                'heading': self.opt(tag + '_hd', self.f32(tag + '_hdv')), 'speed': self.opt(tag + '_sp', self.f32(tag + '_spv')),
                'vert_speed': self.opt(tag + '_vs', Int('i16', z3.BitVec(tag + '_vsv', 16))),
                'on_ground': self.opt(tag + '_og', z3.Bool(tag + '_ogv')),
                'num_messages': Int('u32', nm), 'last_time': self.time(tag + '_st'),
                'track': self.opt(tag + '_tr', Vec([self.coor('%s_tr%d' % (tag, i), invariant=False) for i in range(track_len)]))}
        return Struct('AirplaneState', [vals[n] for n in names if n in vals])

    def planes(self, k, track_len=1):
        keys = [self.icao('k%d' % i) for i in range(k)]
        for i in range(k):
            for j in range(i):
                self.assume.append(z3.Not(value_eq(keys[i], keys[j])))
        states = [self.state('s%d' % i, track_len) for i in range(k)]
        return Struct('Airplanes', (BMap(list(zip(keys, states))),)), keys, states


def mk_struct(prog, name, vals):
    names = prog.src.structs[name]
    return Struct(name, [vals[n] for n in names])


def mk_variant(prog, ety, var, vals):
    names = prog.src.vfields.get((ety, var))
    if names is None:
        return Enum(ety, var, vals if isinstance(vals, (list, tuple)) else [vals])
    return Enum(ety, var, [vals[n] for n in names])


def cenum(ty, tag, bits):
    return Enum(ty, None, (), discr=z3.ZeroExt(64 - bits, z3.BitVec(tag, bits)))


def sym_me(sym, prog, cls, tag='f'):
    """A symbolic ME payload of the given class with every field arbitrary."""
    bv = z3.BitVec
    if cls in ('AirbornePositionBaroAltitude', 'AirbornePositionGNSSAltitude'):
        return Enum('ME', cls, (sym.altitude(tag + '_r'),))
    if cls.startswith('AircraftIdentification'):
        n = int(cls.split(':')[1]) if ':' in cls else 3
        cn = RString((('chars', tuple(Int('char', z3.ZeroExt(24, bv('%s_cn%d' % (tag, i), 8))) for i in range(n))),)) if n else RString(())
        tcd = z3.ZeroExt(61, bv(tag + '_tcd', 3))
        sym.assume.append(z3.And(z3.UGE(tcd, 1), z3.ULE(tcd, 4)))
        ident = mk_struct(prog, 'Identification', {'tc': Enum('TypeCoding', None, (), discr=tcd),
                                                   'ca': Int('u8', z3.ZeroExt(5, bv(tag + '_ca', 3))), 'cn': cn})
        return Enum('ME', 'AircraftIdentification', (ident,))
    if cls.startswith('AirborneVelocity'):
        sub = cls.split('.')[1]
        sign = lambda t: cenum('Sign', t, 1)     # noqa: E731
        if sub == 'GroundSpeedDecoding':
            g = mk_struct(prog, 'GroundSpeedDecoding', {'ew_sign': sign(tag + '_ews'), 'ew_vel': Int('u16', z3.ZeroExt(6, bv(tag + '_ew', 10))),
                                                        'ns_sign': sign(tag + '_nss'), 'ns_vel': Int('u16', z3.ZeroExt(6, bv(tag + '_ns', 10)))})
            st_ = Enum('AirborneVelocitySubType', sub, (g,))
        elif sub == 'AirspeedDecoding':
            a = mk_struct(prog, 'AirspeedDecoding', {'status_heading': Int('u8', z3.ZeroExt(7, bv(tag + '_sh', 1))),
                                                     'mag_heading': Int('u16', z3.ZeroExt(6, bv(tag + '_mh', 10))),
                                                     'airspeed_type': Int('u8', z3.ZeroExt(7, bv(tag + '_at', 1))),
                                                     'airspeed': Int('u16', z3.ZeroExt(6, bv(tag + '_as', 10)))})
            st_ = Enum('AirborneVelocitySubType', sub, (a,))
        else:
            st_ = Enum('AirborneVelocitySubType', sub, (Int('u32', z3.ZeroExt(10, bv(tag + '_rsv', 22))),))
        av = mk_struct(prog, 'AirborneVelocity', {'st': Int('u8', z3.ZeroExt(5, bv(tag + '_st', 3))),
                                                  'nac_v': Int('u8', z3.ZeroExt(3, bv(tag + '_nacv', 5))), 'sub_type': st_,
                                                  'vrate_src': cenum('VerticalRateSource', tag + '_vsrc', 1),
                                                  'vrate_sign': sign(tag + '_vsg'),
                                                  'vrate_value': Int('u16', z3.ZeroExt(7, bv(tag + '_vr', 9))),
                                                  'reverved': Int('u8', z3.ZeroExt(6, bv(tag + '_rv', 2))),
                                                  'gnss_sign': sign(tag + '_gs'),
                                                  'gnss_baro_diff': Int('u16', bv(tag + '_gbd', 16))})
        return Enum('ME', 'AirborneVelocity', (av,))
    if cls in ('NoPosition', 'Reserved0', 'SurfaceSystemStatus', 'Reserved1', 'AircraftOperationalCoordination'):
        return Enum('ME', cls, (Arr([Int('u8', bv('%s_raw%d' % (tag, i), 8)) for i in range(6)]),))
    # payloads the tracker ignores entirely: an opaque stand-in is enough (action() matches `_ => Added::No`)
    return Enum('ME', cls, (Opaque('payload', cls),))


def sym_frame(sym, prog, fclass):
    """fclass: 'ADSB/<me class>' | 'TisB/<me class>' | a non-ES DF variant name"""
    crc = Int('u32', z3.ZeroExt(8, z3.BitVec('f_crc', 24)))
    if fclass.startswith('ADSB/'):
        me = sym_me(sym, prog, fclass[5:])
        adsb = mk_struct(prog, 'ADSB', {'capability': Enum('Capability', 'AG_AIRBORNE'), 'icao': sym.icao('f_icao'), 'me': me,
                                        'pi': sym.icao('f_pi')})
        df = Enum('DF', 'ADSB', (adsb,))
    elif fclass.startswith('TisB/'):
        me = sym_me(sym, prog, fclass[5:])
        cf = mk_struct(prog, 'ControlField', {'t': cenum('ControlFieldType', 'f_cft', 3), 'aa': sym.icao('f_aa'), 'me': me})
        df = mk_variant(prog, 'DF', 'TisB', {'cf': cf, 'pi': sym.icao('f_pi')})
    else:
        decls = prog.src.vftypes.get(('DF', fclass))
        if decls:
            df = Enum('DF', fclass, [sym_typed(sym, prog, t, 'f_' + n, a) for n, t, a in decls])
        else:
            names = prog.src.vfields.get(('DF', fclass)) or []
            df = Enum('DF', fclass, [Opaque('field', n) for n in names])
    return mk_struct(prog, 'Frame', {'df': df, 'crc': crc})


def sym_typed(sym, prog, ty, tag, attrs='', depth=0):
    """An arbitrary symbolic value of Rust type `ty` (as written in the sources): integers, bool, ICAO, field-less
    enums (any declared discriminant), named / tuple structs, Option, fixed-count Vec<u8>, arrays.  Anything else
    (payload enums such as ME / BDS, strings) stays an opaque placeholder: code that inspects it makes the run
    inconclusive rather than wrong."""
    src = prog.src
    ty = ty.strip()
    if ty in INT_TYPES:
        w = INT_TYPES[ty][0]
        m = re.search(r'bits\s*=\s*"(\d+)"', attrs or '')
        nb = int(m.group(1)) if m and int(m.group(1)) < w else w
        v = z3.BitVec(tag, nb)
        return Int(ty, z3.ZeroExt(w - nb, v) if nb < w else v)
    if ty == 'bool':
        return z3.Bool(tag)
    if ty == 'ICAO':
        return sym.icao(tag)
    if ty in ('f64', 'f32'):
        return sym.f64(tag, True) if ty == 'f64' else sym.f32(tag)
    if depth > 4:
        return _opaque_field(tag, ty)
    m = re.match(r'^Option<(.*)>$', ty)
    if m:
        return sym.opt(tag, sym_typed(sym, prog, m.group(1), tag + '_v', '', depth + 1))
    m = re.match(r'^\[(.*);\s*(\d+)\]$', ty)
    if m:
        return Arr([sym_typed(sym, prog, m.group(1), '%s_%d' % (tag, i), '', depth + 1) for i in range(int(m.group(2)))])
    m = re.match(r'^Vec<(.*)>$', ty)
    if m:
        c = re.search(r'count\s*=\s*"(\d+)"', attrs or '')
        if c:
            return Vec(tuple(sym_typed(sym, prog, m.group(1), '%s_%d' % (tag, i), '', depth + 1) for i in range(int(c.group(1)))))
        return _opaque_field(tag, ty)
    en = src.enums.get(ty)
    if en is not None and ty not in src.payload_enums and en:
        d = z3.BitVec(tag, 64)
        sym.assume.append(z3.Or(*[d == z3.BitVecVal(v & ((1 << 64) - 1), 64) for v in sorted(set(en.values()))]))
        return Enum(ty, None, (), discr=d)
    if ty in src.ftypes and src.ftypes[ty]:
        return Struct(ty, [sym_typed(sym, prog, t, '%s_%s' % (tag, n), a, depth + 1) for n, t, a in src.ftypes[ty]])
    if ty in src.tstructs:
        return Struct(ty, [sym_typed(sym, prog, t, '%s_%d' % (tag, i), '', depth + 1) for i, t in enumerate(src.tstructs[ty])])
    return _opaque_field(tag, ty)


def _opaque_field(tag, ty):
    from checks import step_replay
    step_replay.OPAQUE_TYPES[tag] = ty
    return Opaque('field', tag)


ME_CLASSES = ['AirbornePositionBaroAltitude', 'AirbornePositionGNSSAltitude', 'AircraftIdentification:0',
              'AircraftIdentification:3', 'AircraftIdentification:8', 'AirborneVelocity.GroundSpeedDecoding',
              'AirborneVelocity.AirspeedDecoding', 'AirborneVelocity.Reserved0', 'AirborneVelocity.Reserved1',
              'NoPosition', 'SurfacePosition', 'Reserved0', 'SurfaceSystemStatus', 'Reserved1', 'AircraftStatus',
              'TargetStateAndStatusInformation', 'AircraftOperationalCoordination', 'AircraftOperationStatus']
NON_ES = ['ShortAirAirSurveillance', 'SurveillanceAltitudeReply', 'SurveillanceIdentityReply', 'AllCallReply', 'LongAirAir',
          'ExtendedQuitterMilitaryApplication', 'CommBAltitudeReply', 'CommBIdentityReply', 'ModeSExtendedSquitter']


def default_coor(S):
    vals = {'altitudes': Arr([_b.NONE, _b.NONE]), 'position': _b.NONE, 'last_time': _b.NONE, 'kilo_distance': _b.NONE}
    return Struct('AirplaneCoor', [vals[n] for n in S['AirplaneCoor']])


def default_state(S):
    vals = {'coords': default_coor(S), 'squawk': _b.NONE, 'callsign': _b.NONE, 'heading': _b.NONE, 'speed': _b.NONE,
            'vert_speed': _b.NONE, 'on_ground': _b.NONE, 'num_messages': Int('u32', 0),
            'last_time': Struct('SystemTime', (Int('u64', 0), Int('u32', 0))), 'track': _b.NONE}
    return Struct('AirplaneState', [vals[n] for n in S['AirplaneState'] if n in vals])


def fset(S, v, name, nv):
    names = [n for n in S[v.ty]]
    f = list(v.f)
    f[names.index(name)] = nv
    return Struct(v.ty, f)


def fget(S, v, name):
    return v.f[S[v.ty].index(name)]


# ------------------------------------------------------------------------------------ get_position stub
def flatten_altitude(a):
    out = []
    for x in a.f:
        if isinstance(x, Int):
            out.append(to_bv(x))
        elif isinstance(x, (bool, z3.BoolRef)):
            out.append(z3.If(to_z3bool(x), z3.BitVecVal(1, 1), z3.BitVecVal(0, 1)))
        elif isinstance(x, Enum) and x.ty == 'Option':
            out.append(z3.Extract(0, 0, opt_discr(x)))
            out.append(to_bv(x.f[0]) if x.f else z3.BitVecVal(0, 16))
        elif isinstance(x, Enum):
            out.append(z3.Extract(7, 0, enum_discr_bv(x)))
        else:
            raise ExecError('flatten_altitude: %r' % (x,))
    return out


_GP = {}


def gp_ufs(sorts):
    key = tuple(str(s) for s in sorts)
    if key not in _GP:
        _GP[key] = (z3.Function('get_position_lat', *(list(sorts) + [F64])),
                    z3.Function('get_position_lon', *(list(sorts) + [F64])))
    return _GP[key]


def get_position_stub(ex, st, info, args):
    """cpr::get_position as an uninterpreted function of both reports (all fields).  Its Some/None-ness is the
    parity rule decided by check C05 (None iff equal parity)."""
    pair = args[0]
    a = ex.read_ref(st, pair.f[0])
    b = ex.read_ref(st, pair.f[1])
    xs = flatten_altitude(a) + flatten_altitude(b)
    flat, flon = gp_ufs([x.sort() for x in xs])
    S = ex.prog.src.structs
    oa = enum_discr_bv(fget(S, a, 'odd_flag'))
    ob = enum_discr_bv(fget(S, b, 'odd_flag'))
    some = mk_bool(oa != ob)
    pos = Struct('Position', (Flt('f64', flat(*xs)), Flt('f64', flon(*xs))))
    if some is True:
        return _b.mk_some(pos)
    if some is False:
        return _b.NONE
    return Enum('Option', None, (pos,), discr=z3.If(some, z3.BitVecVal(1, 64), z3.BitVecVal(0, 64)))


get_position_stub.symbolic_option_ok = True


def gp_term(a, b, S):
    xs = flatten_altitude(a) + flatten_altitude(b)
    flat, flon = gp_ufs([x.sort() for x in xs])
    oa = enum_discr_bv(fget(S, a, 'odd_flag'))
    ob = enum_discr_bv(fget(S, b, 'odd_flag'))
    return (oa != ob), Struct('Position', (Flt('f64', flat(*xs)), Flt('f64', flon(*xs))))


# ------------------------------------------------------------------------------------ reference haversine (reals)
def real_of_fp(t, cache=None):
    """Translate an FP term (built from +,-,*,/, conversions, constants, libm UFs, sqrt) to a real-arithmetic term,
    ignoring rounding: used to compare formulas modulo real-arithmetic identities."""
    cache = {} if cache is None else cache
    i = t.get_id()
    if i in cache:
        return cache[i]
    k = t.decl().kind()
    ch = t.children()
    if z3.is_fp_value(t):
        r = z3.RealVal(str(V.fp_to_float(t)))
        if abs(V.fp_to_float(t) - 0.017453292519943295) < 1e-18:
            r = z3.Real('PI_OVER_180')
    elif k == z3.Z3_OP_FPA_ADD:
        r = real_of_fp(ch[1], cache) + real_of_fp(ch[2], cache)
    elif k == z3.Z3_OP_FPA_SUB:
        r = real_of_fp(ch[1], cache) - real_of_fp(ch[2], cache)
    elif k == z3.Z3_OP_FPA_MUL:
        r = real_of_fp(ch[1], cache) * real_of_fp(ch[2], cache)
    elif k == z3.Z3_OP_FPA_DIV:
        r = real_of_fp(ch[1], cache) / real_of_fp(ch[2], cache)
    elif k == z3.Z3_OP_FPA_NEG:
        r = -real_of_fp(ch[0], cache)
    elif k == z3.Z3_OP_FPA_SQRT:
        r = z3.Function('r_sqrt', z3.RealSort(), z3.RealSort())(real_of_fp(ch[1], cache))
    elif k == z3.Z3_OP_FPA_TO_FP and len(ch) == 2 and z3.is_fp(ch[1]):
        r = real_of_fp(ch[1], cache)          # precision conversion: identity in the reals
    elif k == z3.Z3_OP_UNINTERPRETED and ch:
        name = t.decl().name().replace('libm_', 'r_').replace('stdm_', 'r_').replace('_f64', '').replace('_f32', '')
        f = z3.Function(name, *([z3.RealSort()] * (len(ch) + 1)))
        r = f(*[real_of_fp(c, cache) for c in ch])
    elif k == z3.Z3_OP_UNINTERPRETED:
        r = z3.Real('r_' + t.decl().name())
    elif k == z3.Z3_OP_ITE:
        raise ExecError('ite inside a formula term')
    else:
        raise ExecError('real_of_fp: unsupported operator %s' % t.decl().name())
    cache[i] = r
    return r


def haversine_reference(lat1, lon1, lat2, lon2):
    """2 R atan2(sqrt(a), sqrt(1-a)),  a = sin^2(dlat/2) + cos lat1 cos lat2 sin^2(dlon/2),  R = 6371  (reals + UFs)"""
    R = z3.RealSort()
    sin = z3.Function('r_sin', R, R)
    cos = z3.Function('r_cos', R, R)
    atan2 = z3.Function('r_atan2', R, R, R)
    sqrt = z3.Function('r_sqrt', R, R)
    d2r = z3.Real('PI_OVER_180')
    p1, p2, l1, l2 = lat1 * d2r, lat2 * d2r, lon1 * d2r, lon2 * d2r
    sl = sin((p2 - p1) / 2)
    so = sin((l2 - l1) / 2)
    a = sl * sl + cos(p1) * cos(p2) * so * so
    return z3.RealVal(6371) * (2 * atan2(sqrt(a), sqrt(1 - a)))


# ------------------------------------------------------------------------------------ reference model of one step
class Decisions:
    """Re-execution based case enumeration for the reference model: spec code calls d.branch(cond)."""

    def __init__(self, prover):
        self.P = prover
        self.prefix = []
        self.trace = []
        self.guards = []

    def branch(self, cond):
        cond = mk_bool(cond)
        if isinstance(cond, bool):
            return cond
        i = len(self.trace)
        if i < len(self.prefix):
            val = self.prefix[i]
        else:
            val = True
        self.trace.append(val)
        self.guards.append(cond if val else z3.Not(cond))
        return val


def enumerate_cases(P, spec_fn):
    """All feasible (under the prover's current path) decision vectors of spec_fn(d) -> [(guard, result)]"""
    out = []
    stack = [[]]
    while stack:
        prefix = stack.pop()
        d = Decisions(P)
        d.prefix = prefix
        res = spec_fn(d)
        g = z3.And(*d.guards) if d.guards else z3.BoolVal(True)
        # schedule the alternatives of every new decision taken in this run
        for i in range(len(prefix), len(d.trace)):
            alt = d.trace[:i] + [not d.trace[i]]
            stack.append(alt)
        if P.feasible(g) is not None:
            out.append((g, res))
    return out


def hav_code_term(ex, prog, a, b):
    """the code's own haversine_distance applied to two (lat, lon) pairs: FP term"""
    fn = prog.items[prog.find_free_fn('AirplaneCoor::haversine_distance')]
    e2 = Executor(prog, _b.B)
    ls = e2.run(fn, [Tup(a), Tup(b)])
    if len(ls) != 1 or ls[0].kind != 'return':
        raise ExecError('haversine_distance did not evaluate to one term')
    return ls[0].value


def spec_action(S, prog, pre_keys, pre_states, frame, recv, max_range, A, calc_result):
    """Reference model.  Returns spec_fn(d) -> dict(ret_yes: Bool, entries: [(key, state)], touched: idx)"""
    df = A.f(frame, 'df')

    def spec(d):
        if df.variant == 'ADSB':
            addr = A.f(df.f[0], 'icao')
            me = A.f(df.f[0], 'me')
        elif df.variant == 'TisB':
            addr = A.f(A.f(df, 'cf'), 'aa')
            me = A.f(A.f(df, 'cf'), 'me')
        else:
            return {'added': False, 'entries': list(zip(pre_keys, pre_states)), 'touched': None}
        idx = None
        for i, k in enumerate(pre_keys):
            if d.branch(value_eq(k, addr)):
                idx = i
                break
        base = pre_states[idx] if idx is not None else default_state(S)
        st = base
        stamp = spec_action.stamp_for(idx if idx is not None else len(pre_keys))
        if me.variant == 'AircraftIdentification':
            st = fset(S, st, 'callsign', _b.mk_some(A.f(me.f[0], 'cn')))
        elif me.variant == 'AirborneVelocity':
            cr = calc_result
            if cr is not None:
                if d.branch(opt_discr(cr) == z3.BitVecVal(1, 64)):
                    h, s_, v = cr.f[0].f
                    st = fset(S, st, 'heading', _b.mk_some(h))
                    from mirsym.execu import float_to_float
                    st = fset(S, st, 'speed', _b.mk_some(float_to_float(s_, 'f32')))
                    st = fset(S, st, 'vert_speed', _b.mk_some(v))
        elif me.variant in ('AirbornePositionBaroAltitude', 'AirbornePositionGNSSAltitude'):
            r = me.f[0]
            coords = fget(S, st, 'coords')
            slots = fget(S, coords, 'altitudes').e
            odd = d.branch(enum_discr_bv(fget(S, r, 'odd_flag')) == z3.BitVecVal(1, 64))
            cand_slots = [slots[0], _b.mk_some(r)] if odd else [_b.mk_some(r), slots[1]]
            cand = fset(S, coords, 'altitudes', Arr(cand_slots))
            cleared = False
            both = d.branch(opt_discr(cand_slots[0]) == z3.BitVecVal(1, 64)) and d.branch(opt_discr(cand_slots[1]) == z3.BitVecVal(1, 64))
            if both:
                a0, a1 = cand_slots[0].f[0], cand_slots[1].f[0]
                some, tp = gp_term(a0, a1, S)
                if d.branch(some):
                    kd = spec_action.hav((recv.f[0], recv.f[1]), (tp.f[0], tp.f[1]))
                    if d.branch(fp_cmp('Gt', to_fp(kd), to_fp(max_range))):
                        cleared = True
                    else:
                        cand = fset(S, cand, 'kilo_distance', _b.mk_some(kd))
                        prevp = fget(S, coords, 'position')
                        if d.branch(opt_discr(prevp) == z3.BitVecVal(1, 64)):
                            p0 = prevp.f[0]
                            dist = spec_action.hav((p0.f[0], p0.f[1]), (tp.f[0], tp.f[1]))
                            if d.branch(fp_cmp('Gt', to_fp(dist), z3.FPVal(100.0, F64))):
                                cleared = True
                    if not cleared:
                        cand = fset(S, cand, 'position', _b.mk_some(tp))
                else:
                    cand = fset(S, cand, 'position', _b.NONE)
                if not cleared:
                    cand = fset(S, cand, 'last_time', stamp)
            if cleared:
                st = fset(S, st, 'coords', default_coor(S))
            else:
                changed = d.branch(z3.Not(coor_eq(S, coords, cand)))
                if changed:
                    tr = fget(S, st, 'track')
                    if d.branch(opt_discr(tr) == z3.BitVecVal(1, 64)):
                        st = fset(S, st, 'track', _b.mk_some(Vec(tr.f[0].e + (coords,))))
                    else:
                        st = fset(S, st, 'track', _b.mk_some(Vec((coords,))))
                    st = fset(S, st, 'coords', cand)
        nm = fget(S, st, 'num_messages')
        st = fset(S, st, 'num_messages', Int('u32', to_bv(nm) + 1))
        st = fset(S, st, 'last_time', Opaque('any'))
        entries = list(zip(pre_keys, pre_states))
        if idx is None:
            entries.append((addr, st))
            touched = len(entries) - 1
        else:
            entries[idx] = (pre_keys[idx], st)
            touched = idx
        return {'added': idx is None, 'entries': entries, 'touched': touched}
    return spec


def coor_eq(S, a, b):
    """derived PartialEq of AirplaneCoor (all four fields), last_time compared unless marked 'any'"""
    parts = []
    for n in S['AirplaneCoor']:
        x, y = fget(S, a, n), fget(S, b, n)
        parts.append(value_eq_fp(x, y))
    return z3.And(*parts)


def value_eq_fp(a, b):
    """like value_eq, but floats compare with fpEQ semantics inside Option/Position (derived PartialEq on f64)"""
    if isinstance(a, Flt) and isinstance(b, Flt):
        return to_z3bool(fp_cmp('Eq', to_fp(a), to_fp(b)))
    if isinstance(a, Enum) and isinstance(b, Enum) and a.ty == 'Option':
        da, db = opt_discr(a), opt_discr(b)
        if a.f and b.f:
            return z3.And(da == db, z3.Implies(da == z3.BitVecVal(1, 64), value_eq_fp(a.f[0], b.f[0])))
        return z3.And(da == db, da == z3.BitVecVal(0, 64)) if (a.f or b.f) else da == db
    if isinstance(a, (Struct, Tup)) and type(a) is type(b) and len(a.f) == len(b.f):
        return z3.And(*[value_eq_fp(x, y) for x, y in zip(a.f, b.f)]) if a.f else z3.BoolVal(True)
    if isinstance(a, (Arr, Vec)) and isinstance(b, (Arr, Vec)) and len(a.e) == len(b.e):
        return z3.And(*[value_eq_fp(x, y) for x, y in zip(a.e, b.e)]) if a.e else z3.BoolVal(True)
    return value_eq(a, b)


def state_eq(S, got, want, ignore=('last_time',)):
    """post-state equality, field by field; fields in `ignore` (std-only timestamps) are projected away"""
    if got.ty != want.ty:
        return z3.BoolVal(False)
    parts = []
    for n in S[got.ty]:
        if n in ignore:
            continue
        x, y = fget(S, got, n), fget(S, want, n)
        if isinstance(x, Opaque) or isinstance(y, Opaque):
            continue
        if isinstance(x, Struct) and x.ty in S and isinstance(y, Struct):
            parts.append(state_eq(S, x, y, ignore))
        elif isinstance(x, Enum) and x.ty == 'Option' and isinstance(y, Enum) and x.f and y.f and isinstance(x.f[0], Vec) and isinstance(y.f[0], Vec):
            # track: Option<Vec<AirplaneCoor>>
            dx, dy = opt_discr(x), opt_discr(y)
            if len(x.f[0].e) != len(y.f[0].e):
                parts.append(z3.And(dx == dy, dx == z3.BitVecVal(0, 64)))
            else:
                inner = [state_eq(S, p, q, ignore) for p, q in zip(x.f[0].e, y.f[0].e)]
                parts.append(z3.And(dx == dy, z3.Implies(dx == z3.BitVecVal(1, 64), z3.And(*inner) if inner else z3.BoolVal(True))))
        else:
            parts.append(value_eq(x, y))
    return z3.And(*parts) if parts else z3.BoolVal(True)


# ------------------------------------------------------------------------------------ worker job
def run_job(prog, job):
    kind = job['kind']
    if kind == 'action':
        return job_action(prog, job)
    if kind == 'views':
        return job_views(prog, job)
    if kind == 'prune':
        return job_prune(prog, job)
    if kind == 'haversine':
        return job_haversine(prog, job)
    raise ExecError('unknown tracker job ' + kind)


def new_res():
    return {'paths': 0, 'violations': [], 'samples': [], 'steps': 0, 'fn_calls': {}, 'builtin_calls': {},
            'obligations': 0, 'discharged': 0, 'solver_s': 0.0, 'explore_solver_s': 0.0, 'sigs': {}}


def note(res, ex):
    res['steps'] += ex.stats['steps']
    res['explore_solver_s'] += ex.stats['solver_s']
    for k, v in ex.stats['fn_calls'].items():
        res['fn_calls'][k] = res['fn_calls'].get(k, 0) + v
    for k, v in ex.stats['builtin_calls'].items():
        res['builtin_calls'][k] = res['builtin_calls'].get(k, 0) + v
    if ex.stats['unknown']:
        res['inconclusive'] = 'solver returned unknown during exploration'


STEP_CTX = {}      # what is being executed (set by the job functions): lets viol() write the counterexample out for
#                    the native replay of the step (checks/step_replay.py)


def viol(res, prop, role, detail, model, syms, job, extra=None):
    v = {'property': prop, 'role': role, 'detail': detail, 'job': job, 'witness': None}
    if model is not None and model != 'unknown' and STEP_CTX.get('op'):
        from checks import step_replay
        try:
            v['step'] = step_replay.step_json(STEP_CTX['prog'], STEP_CTX, model)
        except step_replay.NotReplayable as e:
            v['step_error'] = 'not replayable: %s' % e
        except Exception as e:      # noqa
            v['step_error'] = 'serialisation failed: %r' % (e,)
    if model is not None and model != 'unknown':
        v['model'] = {str(d): str(model[d]) for d in model.decls() if not str(d).startswith(('fpatom', 'libm_', 'stdm_', 'get_position', 'r_'))}
        if syms.get('bs') is not None:
            v['witness'] = model_bytes(model, syms['bs']).hex()
    if model == 'unknown':
        res['inconclusive'] = 'solver unknown on ' + role
        res['unknown_roles'] = res.get('unknown_roles', []) + [role]
        return
    if extra:
        v.update(extra)
    res['violations'].append(v)


def job_action(prog, job):
    props = job['props']
    k = job['k']
    res = new_res()
    S = prog.src.structs
    A = Acc(prog)
    sym = Sym(prog)
    bs = None
    planes, keys, states = sym.planes(k, job.get('track_len', 1))
    recv = Tup((sym.f64('recv_lat'), sym.f64('recv_lon')))
    max_range = sym.f64('max_range')
    fn = prog.items[prog.find_free_fn('Airplanes::action')]
    calc_fn = prog.items[prog.find_free_fn('AirborneVelocity::calculate')]
    P = Prover(timeout_ms=120000)
    P.abstract = True

    class FL:      # stand-in for a from_bytes leaf
        pass
    leaves = []
    for fc in job['frames']:
        l = FL()
        l.kind = 'return'
        l.sig = fc
        l.value = _b.mk_ok(sym_frame(sym, prog, fc))
        l.pc = []
        leaves.append(l)
    for l in leaves:
        fr = l.value.f[0]
        sig = l.sig
        res['sigs'][sig] = res['sigs'].get(sig, 0) + 1
        pc0 = list(l.pc) + list(sym.assume)
        ex2 = Executor(prog, _b.B)
        ex2.overrides['get_position'] = get_position_stub
        ls = ex2.run_with_cells(fn, [('cell', planes), fr, recv, max_range], pc=pc0)
        note(res, ex2)
        STEP_CTX.clear()
        STEP_CTX.update({'prog': prog, 'op': 'action', 'pre': planes, 'frame': fr, 'recv': recv, 'max_range': max_range})
        cid = ex2.cell_ids[0]
        df = A.f(fr, 'df')
        m_ = me_of({'A': A}, df)
        calc_result = None
        if m_ is not None and m_.variant == 'AirborneVelocity':
            ex3 = Executor(prog, _b.B)
            cl = ex3.run(calc_fn, [Ref(('V', m_.f[0]))], pc=pc0)
            note(res, ex3)
            # merge the calculate() leaves into one symbolic Option
            acc = None
            for c in cl:
                if c.kind != 'return':
                    continue
                extra = c.pc[len(pc0):]
                g = z3.And(*extra) if extra else z3.BoolVal(True)
                acc = c.value if acc is None else ite_value(g, c.value, acc)
            calc_result = acc
        e_h = Executor(prog, _b.B)

        def hav(a, b, e_h=e_h):
            return hav_code_term(e_h, prog, a, b)
        spec_action.hav = hav
        spec = spec_action(S, prog, keys, states, fr, recv, max_range, A, calc_result)
        for c in ls:
            res['paths'] += 1
            P.set_path(c.pc)
            if c.kind != 'return':
                P.obligations += 1
                if 'C01' in props:
                    viol(res, 'C01', 'action-panics:%s' % sig, 'Airplanes::action panics: %s (%s)' % (c.msg, c.where), P.feasible(), {'bs': bs}, job)
                continue
            if props == ['C01']:
                P.obligations += 1
                P.discharged += 1
                continue
            post = c.cells[cid].f[0]
            ret_yes = enum_is(prog, c.value, 'Yes')

            # the model keeps map entries in insertion order, a BTreeMap in key order: align the post entries with the
            # reference model's entries by address term (remove + re-insert of a record is not a change)
            post_by_key = {}
            for e in post.ents:
                post_by_key.setdefault(key_repr(e[0]), e)
            frame_key = frame_addr_value(A, df)

            def stamp_for(i, post=post):
                # the time stamp the code itself stored (timestamps are outside the tracker semantics, C20): the stamp
                # of the post-state record filed under the same address, selected by address equality (the position of
                # a record in the model's map is not meaningful)
                k_ = keys[i] if i < len(keys) else frame_key
                if k_ is None:
                    return _b.NONE
                e = post_by_key.get(key_repr(k_))
                if e is not None:
                    return fget(S, fget(S, e[1], 'coords'), 'last_time')
                out = _b.NONE
                for e in reversed(post.ents):
                    out = ite_value(value_eq(e[0], k_), fget(S, fget(S, e[1], 'coords'), 'last_time'), out)
                return out
            spec_action.stamp_for = stamp_for
            cases = enumerate_cases(P, spec)
            if not cases:
                res['inconclusive'] = 'reference model has no feasible case on a code path'
            post_orig = post
            for g, want in cases:
                ents = want['entries']
                role_base = sig
                aligned = [post_by_key.get(key_repr(wk)) for wk, _ in ents]
                if len(post_orig.ents) == len(ents) and not (all(a is not None for a in aligned) and len({id(a) for a in aligned}) == len(aligned)):
                    # addresses that are equal only under the case condition (the frame's address vs the stored key)
                    aligned, used = [], set()
                    for wk, _ in ents:
                        hit = None
                        for j, e in enumerate(post_orig.ents):
                            if j not in used and (key_repr(e[0]) == key_repr(wk) or P.implied(z3.Implies(g, value_eq(e[0], wk)))):
                                hit = j
                                break
                        if hit is None:
                            break
                        used.add(hit)
                        aligned.append(post_orig.ents[hit])
                if len(post_orig.ents) == len(ents) and len(aligned) == len(ents) and all(a is not None for a in aligned) \
                        and len({id(a) for a in aligned}) == len(aligned):
                    post = BMap(tuple(aligned))
                else:
                    post = post_orig
                # C12: added flag, key set, accounting, isolation
                if 'C12' in props:
                    claim = z3.BoolVal(want['added']) == to_z3bool(ret_yes)
                    ob(res, P, 'C12', '%s:added-flag' % role_base, z3.Implies(g, claim), "the 'added' result differs from 'address was not tracked before'", bs, job)
                    if len(post.ents) != len(ents):
                        ob(res, P, 'C12', '%s:key-set' % role_base, z3.Implies(g, z3.BoolVal(False)), 'the tracked set has %d records, the reference model %d' % (len(post.ents), len(ents)), bs, job)
                        continue
                    for i, ((gk, gv), (wk, wv)) in enumerate(zip(post.ents, ents)):
                        ob(res, P, 'C12', '%s:key-set' % role_base, z3.Implies(g, value_eq(gk, wk)), 'record %d is filed under a different address' % i, bs, job)
                        if i != want['touched']:
                            same = gv is wv
                            ob(res, P, 'C12', '%s:isolation' % role_base, z3.Implies(g, z3.BoolVal(True) if same else state_eq(S, gv, wv, ignore=())),
                               'a record of another aircraft changed', bs, job)
                        else:
                            ob(res, P, 'C12', '%s:message-count' % role_base,
                               z3.Implies(g, to_bv(fget(S, gv, 'num_messages')) == to_bv(fget(S, wv, 'num_messages'))),
                               'message count differs from previous count + 1', bs, job)
                if 'C15' in props and 'last_time' in S['AirplaneState'] and len(post.ents) == len(ents):
                    # a frame does not refresh the "last heard" stamp of any aircraft other than its sender (frames
                    # without an announced address refresh none)
                    for i, ((gk, gv), (wk, wv)) in enumerate(zip(post.ents, ents)):
                        if i == want['touched']:
                            continue
                        ob(res, P, 'C15', '%s:stamp-of-others' % role_base,
                           z3.Implies(g, coll_bi.t_eq(coll_bi.t_parts(fget(S, gv, 'last_time')), coll_bi.t_parts(fget(S, wv, 'last_time')))),
                           'the last-heard stamp of an aircraft that did not send this frame changed', bs, job)
                if len(post.ents) != len(ents) or want['touched'] is None:
                    if want['touched'] is None and 'C12' in props and len(post.ents) == len(ents):
                        pass
                    continue
                gv = post.ents[want['touched']][1]
                wv = ents[want['touched']][1]
                if 'C14' in props:
                    for fld in ('callsign', 'heading', 'speed', 'vert_speed', 'squawk', 'on_ground', 'track'):
                        w1 = Struct('X', (fget(S, wv, fld),))
                        g1 = Struct('X', (fget(S, gv, fld),))
                        S['X'] = ['x']
                        ob(res, P, 'C14', '%s:%s' % (role_base, fld), z3.Implies(g, state_eq(S, g1, w1)),
                           '%s differs from the reference model (latest report wins, everything else untouched)' % fld, bs, job)
                    # invariants re-established
                    co = fget(S, gv, 'coords')
                    ob(res, P, 'C14', '%s:distance-iff-position' % role_base,
                       z3.Implies(g, opt_discr(fget(S, co, 'kilo_distance')) == opt_discr(fget(S, co, 'position'))),
                       'a distance is present without a position or vice versa', bs, job)
                    sl = fget(S, co, 'altitudes').e
                    inv2 = z3.And(z3.Implies(opt_discr(sl[0]) == 1, enum_discr_bv(fget(S, sl[0].f[0], 'odd_flag')) == 0) if sl[0].f else z3.BoolVal(True),
                                  z3.Implies(opt_discr(sl[1]) == 1, enum_discr_bv(fget(S, sl[1].f[0], 'odd_flag')) == 1) if sl[1].f else z3.BoolVal(True))
                    ob(res, P, 'C14', '%s:slot-parity' % role_base, z3.Implies(g, inv2), 'a report is stored in the slot of the other parity', bs, job)
                if 'C15' in props and 'last_time' in S['AirplaneState']:
                    # the record of the aircraft just heard carries a clock reading taken during this call: pruning
                    # measures the time since the most recent message
                    n_now = c.env.get('clock_n', 0)
                    lt = coll_bi.t_parts(fget(S, gv, 'last_time'))
                    fresh = z3.Or(*[coll_bi.t_eq(lt, coll_bi.clock_reading(j)) for j in range(n_now)]) if n_now else z3.BoolVal(False)
                    ob(res, P, 'C15', '%s:heard-stamp' % role_base, z3.Implies(g, fresh),
                       'the time stamp of the aircraft just heard is not a clock reading taken while handling this frame', bs, job)
                if 'C13' in props:
                    ob(res, P, 'C13', '%s:coords' % role_base, z3.Implies(g, state_eq(S, fget(S, gv, 'coords'), fget(S, wv, 'coords'))),
                       'position record differs from the reference model (pair most recent even/odd, range and 100 km checks, clear otherwise)', bs, job)
    res['obligations'] = P.obligations
    res['discharged'] = P.discharged
    res['solver_s'] = P.solver_s
    if P.timeouts:
        res['inconclusive'] = '%d solver timeouts (%s)' % (P.timeouts, res.get('unknown_roles'))
    res['samples'].append({'frame_classes': job['frames'], 'pre_state': '%d symbolic records, every Option symbolic' % k,
                           'frame': 'arbitrary value of the class (all fields symbolic)'})
    return res


def key_repr(k):
    """syntactic identity of an address value (ICAO([u8; 3])): the terms of its three bytes"""
    try:
        return tuple(str(to_bv(b)) for b in k.f[0].e)
    except Exception:      # noqa
        return ('?', id(k))


def frame_addr_value(A, df):
    if df.variant == 'ADSB':
        return A.f(df.f[0], 'icao')
    if df.variant == 'TisB':
        return A.f(A.f(df, 'cf'), 'aa')
    return None


def ob(res, P, prop, role, claim, detail, bs, job):
    t = time.time()
    m = P.prove(claim)
    if time.time() - t > 3 and os.environ.get('VERIF_SLOW'):
        cons = claim.arg(1) if z3.is_implies(claim) else claim
        sc = z3.simplify(cons)
        print('[slow obligation %.1fs] %s %s' % (time.time() - t, role, str(sc)[:3000].replace('\n', ' ')), file=sys.stderr)
    if m is not None:
        viol(res, prop, role, detail, m, {'bs': bs}, job)


def job_views(prog, job):
    """aircraft_details / all_position on an arbitrary map (C14)"""
    res = new_res()
    S = prog.src.structs
    sym = Sym(prog)
    k = job['k']
    planes, keys, states = sym.planes(k)
    P = Prover()
    q = sym.icao('q')
    fn = prog.items[prog.find_free_fn('Airplanes::aircraft_details')]
    ex = Executor(prog, _b.B)
    ls = ex.run(fn, [Ref(('V', planes)), q], pc=list(sym.assume))
    note(res, ex)
    STEP_CTX.clear()
    STEP_CTX.update({'prog': prog, 'op': 'details', 'pre': planes, 'icao': q})
    for c in ls:
        res['paths'] += 1
        P.set_path(c.pc)
        if c.kind != 'return':
            viol(res, 'C14', 'aircraft_details-panics', 'aircraft_details panics: %s' % c.msg, P.feasible(), {}, job)
            continue
        r = c.value
        # expected: Some iff q is a key i and that record has position, altitude (slot 0) and distance
        alts = []
        for i, (kk, stt) in enumerate(zip(keys, states)):
            co = fget(S, stt, 'coords')
            s0 = fget(S, co, 'altitudes').e[0]
            alt_some = z3.And(opt_discr(s0) == 1, opt_discr(fget(S, s0.f[0], 'alt')) == 1)
            have = z3.And(opt_discr(fget(S, co, 'position')) == 1, alt_some, opt_discr(fget(S, co, 'kilo_distance')) == 1)
            alts.append((value_eq(kk, q), have, stt, co, s0))
        exp_some = z3.Or(*[z3.And(a, h) for a, h, _, _, _ in alts]) if alts else z3.BoolVal(False)
        ob(res, P, 'C14', 'details-availability', (opt_discr(r) == 1) == exp_some,
           'details are available although position/altitude/distance is missing, or the reverse', None, job)
        if r.f:
            dd = r.f[0]
            for a, h, stt, co, s0 in alts:
                want = z3.And(value_eq_bits(fget(S, dd, 'position'), fget(S, co, 'position').f[0]),
                              to_bv(fget(S, dd, 'altitude')) == to_bv(fget(S, s0.f[0], 'alt').f[0]),
                              to_fp(fget(S, dd, 'kilo_distance')) == to_fp(fget(S, co, 'kilo_distance').f[0]),
                              value_eq(fget(S, dd, 'heading'), fget(S, stt, 'heading')))
                ob(res, P, 'C14', 'details-values', z3.Implies(z3.And(opt_discr(r) == 1, a), want),
                   'details differ from the record they are derived from', None, job)
    fn2 = prog.items[prog.find_free_fn('Airplanes::all_position')]
    ex2 = Executor(prog, _b.B)
    ls = ex2.run(fn2, [Ref(('V', planes))], pc=list(sym.assume))
    note(res, ex2)
    STEP_CTX.clear()
    STEP_CTX.update({'prog': prog, 'op': 'all_position', 'pre': planes})
    for c in ls:
        res['paths'] += 1
        P.set_path(c.pc)
        if c.kind != 'return':
            viol(res, 'C14', 'all_position-panics', 'all_position panics: %s' % c.msg, P.feasible(), {}, job)
            continue
        got = c.value.e
        # set semantics (the property fixes no order; addresses are pairwise distinct).  A leaf may stand for several
        # merged cases, so which aircraft are positioned need not be decided by the path: the claim is stated with
        # the position flags as terms.
        pos = [opt_discr(fget(S, fget(S, states[i], 'coords'), 'position')) == 1 for i in range(k)]

        def match(e, i):
            return z3.And(pos[i], value_eq(e.f[0], keys[i]),
                          value_eq_bits(e.f[1], fget(S, fget(S, states[i], 'coords'), 'position').f[0]))
        n_pos = z3.Sum([z3.If(p_, 1, 0) for p_ in pos]) if pos else z3.IntVal(0)
        ob(res, P, 'C14', 'all_position-set', n_pos == len(got),
           'the position list has %d entries, a different number of aircraft have a position' % len(got), None, job)
        for e in got:
            ob(res, P, 'C14', 'all_position-set', z3.Or(*[match(e, i) for i in range(k)]) if k else z3.BoolVal(False),
               'a position list entry is not the (address, position) of a positioned record', None, job)
        for i in range(k):
            ob(res, P, 'C14', 'all_position-set', z3.Implies(pos[i], z3.Or(*[match(e, i) for e in got]) if got else z3.BoolVal(False)),
               'a positioned aircraft is missing from the position list', None, job)
    # the text listing (Display for Airplanes): one line per aircraft with details, headed by its address
    STEP_CTX.clear()
    ex3 = Executor(prog, _b.B)
    try:
        ls = ex3.run_builtin_call('<Airplanes as ToString>::to_string', [Ref(('V', planes))], pc=list(sym.assume))
    except ExecError as e:
        ls = []
        res['inconclusive'] = 'Display for Airplanes: %s' % e
    note(res, ex3)
    for c in ls:
        res['paths'] += 1
        P.set_path(c.pc)
        if c.kind != 'return':
            viol(res, 'C14', 'listing-panics', 'Display for Airplanes panics: %s' % c.msg, P.feasible(), {}, job)
            continue
        haves = []
        for i, stt in enumerate(states):
            co = fget(S, stt, 'coords')
            s0 = fget(S, co, 'altitudes').e[0]
            alt_some = z3.And(opt_discr(s0) == 1, opt_discr(fget(S, s0.f[0], 'alt')) == 1)
            haves.append(z3.And(opt_discr(fget(S, co, 'position')) == 1, alt_some, opt_discr(fget(S, co, 'kilo_distance')) == 1))
        idxs = [i for i in range(k) if P.implied(haves[i])]
        undec = [i for i in range(k) if i not in idxs and not P.implied(z3.Not(haves[i]))]
        segs = c.value.segs if isinstance(c.value, RString) else ()
        # split the rendered text into lines; the first six characters of a line are the address (whatever the
        # segmentation of the ICAO rendering: three {:02x} segments, one {:06x}, ...)
        from checks.c04 import seg_hex_chars
        lines_, cur = [], []
        for sg in segs:
            if isinstance(sg, str):
                parts = sg.split('\n')
                for pi, part in enumerate(parts):
                    if part:
                        cur.append(part)
                    if pi < len(parts) - 1:
                        lines_.append(cur)
                        cur = []
            else:
                cur.append(sg)
        if cur:
            lines_.append(cur)
        P.obligations += 1
        if undec or len(lines_) != len(idxs):
            viol(res, 'C14', 'listing-lines', 'the listing has %d lines, %d aircraft have details' % (len(lines_), len(idxs)),
                 P.feasible(), {}, job)
            continue
        P.discharged += 1
        for j, i in enumerate(idxs):
            head = []
            for sg in lines_[j]:
                cs = seg_hex_chars(sg)
                if cs is None:
                    break
                head += cs
                if len(head) >= 6:
                    break
            kb = keys[i].f[0].e
            exp = []
            for b in kb:
                for nib in (z3.LShR(to_bv(b), 4), to_bv(b) & 15):
                    n32 = z3.ZeroExt(24, nib)
                    exp.append(z3.If(z3.ULT(n32, 10), n32 + 48, n32 + 87))
            claim = z3.And(*[g_ == e_ for g_, e_ in zip(head[:6], exp)]) if len(head) >= 6 else z3.BoolVal(False)
            ob(res, P, 'C14', 'listing-lines', claim,
               'line %d of the listing is not headed by the address of the %d-th aircraft with details' % (j, j), None, job)
    res['obligations'] = P.obligations
    res['discharged'] = P.discharged
    res['solver_s'] = P.solver_s
    res['samples'].append({'state': '%d symbolic records, arbitrary Options' % k, 'query': 'arbitrary address'})
    return res


def value_eq_bits(a, b):
    """bit-identical equality (floats compared as IEEE bit patterns: a copied value)"""
    if isinstance(a, Flt) and isinstance(b, Flt):
        return to_fp(a) == to_fp(b)
    if isinstance(a, Struct) and isinstance(b, Struct):
        return z3.And(*[value_eq_bits(x, y) for x, y in zip(a.f, b.f)])
    return value_eq(a, b)


def job_prune(prog, job):
    """C15: prune(T) from an arbitrary map, clock symbolic"""
    res = new_res()
    S = prog.src.structs
    sym = Sym(prog)
    k = job['k']
    planes, keys, states = sym.planes(k)
    T = z3.BitVec('T', 64)
    P = Prover()
    fn = prog.items[prog.find_free_fn('Airplanes::prune')]
    for mode in ('monotone', 'free'):
        ex = Executor(prog, _b.B)
        pc = list(sym.assume)
        env = {'clock_mode': mode}
        if mode == 'monotone':
            # last-heard stamps were taken from the same clock earlier: now >= every stamp
            env['clock_last'] = (z3.BitVec('clock_floor_s', 64), z3.BitVec('clock_floor_n', 32))
            pc.append(z3.ULT(env['clock_last'][1], 1000000000))
            for s in states:
                pc.append(coll_bi.t_le(coll_bi.t_parts(fget(S, s, 'last_time')), env['clock_last']))
        ls = ex.run_with_cells(fn, [('cell', planes), Int('u64', T)], env=env, pc=pc)
        note(res, ex)
        cid = ex.cell_ids[0]
        for c in ls:
            res['paths'] += 1
            P.set_path(c.pc)
            STEP_CTX.clear()
            STEP_CTX.update({'prog': prog, 'op': 'prune', 'pre': planes, 'T': T,
                             'nows': [coll_bi.clock_reading(i) for i in range(c.env.get('clock_n', 0))]})
            if c.kind != 'return':
                viol(res, 'C15', 'prune-panics', 'prune panics: %s' % c.msg, P.feasible(), {}, job)
                continue
            post = c.cells[cid].f[0]
            # clock readings taken on this path, one per elapsed() call, in order
            nows = [coll_bi.clock_reading(i) for i in range(c.env.get('clock_n', 0))]
            if k and not nows:
                viol(res, 'C15', 'prune-clock-reads', 'prune never read the clock for %d records' % k, P.feasible(), {}, job)
                continue
            keep = []
            for i, s in enumerate(states):
                lt = coll_bi.t_parts(fget(S, s, 'last_time'))

                def alive_at(now, lt=lt):
                    # heard less than T seconds ago: now >= stamp and (now - stamp) < (T s, 0 ns), i.e. whole seconds < T
                    return z3.And(coll_bi.t_le(lt, now), z3.ULT(coll_bi.t_sub(now, lt)[0], T))
                if len(nows) == k:
                    keep.append((alive_at(nows[i]), alive_at(nows[i])))          # one reading per record (elapsed())
                else:
                    # any other number of readings (e.g. one `now()` for the whole call): the age may be taken at any
                    # reading of this call -- keeping needs "alive at some reading", removing "expired at some reading"
                    keep.append((z3.Or(*[alive_at(n) for n in nows]), z3.And(*[alive_at(n) for n in nows])))
            # survivors on this path
            j = 0
            for i in range(k):
                kept_here = j < len(post.ents) and post.ents[j][1] is states[i]
                if kept_here:
                    ob(res, P, 'C15', 'expiry-rule', keep[i][0], 'a record heard from T or more seconds ago (or with a clock error) survived', None, job)
                    ob(res, P, 'C15', 'survivor-untouched', value_eq(post.ents[j][0], keys[i]), 'a surviving record changed its address', None, job)
                    j += 1
                else:
                    ob(res, P, 'C15', 'expiry-rule', z3.Not(keep[i][1]), 'a record heard from less than T seconds ago was removed', None, job)
            P.obligations += 1
            if j != len(post.ents):
                viol(res, 'C15', 'survivor-untouched', 'post map contains records that are not untouched pre-state records', P.feasible(), {}, job)
            else:
                P.discharged += 1
    res['obligations'] = P.obligations
    res['discharged'] = P.discharged
    res['solver_s'] = P.solver_s
    res['samples'].append({'state': '%d symbolic records' % k, 'threshold': 'symbolic u64', 'clock': 'symbolic, monotone and free'})
    return res


def job_haversine(prog, job):
    """C13: the distance term equals the reference haversine formula modulo real arithmetic + congruence"""
    STEP_CTX.clear()
    res = new_res()
    sym = Sym(prog)
    a = (sym.f64('lat1'), sym.f64('lon1'))
    b = (sym.f64('lat2'), sym.f64('lon2'))
    ex = Executor(prog, _b.B)
    t = hav_code_term(ex, prog, a, b)
    note(res, ex)
    res['paths'] = 1
    P = Prover()
    P.set_path([])
    try:
        got = real_of_fp(to_fp(t))
    except ExecError as e:
        viol(res, 'C13', 'haversine-formula', 'distance term is not an arithmetic formula: %s' % e, None, {}, job)
        res['obligations'] = 1
        return res
    R = z3.Real
    want = haversine_reference(R('r_lat1'), R('r_lon1'), R('r_lat2'), R('r_lon2'))
    s = z3.Solver()
    s.set('timeout', 60000)
    s.add(got != want)
    s.add(R('PI_OVER_180') > 0)
    r = s.check()
    res['obligations'] = 1
    if r == z3.unsat:
        res['discharged'] = 1
    elif r == z3.sat:
        m = s.model()
        viol(res, 'C13', 'haversine-formula', 'distance is not 2R*atan2(sqrt(a), sqrt(1-a)) with a = sin^2(dlat/2)+cos(lat1)cos(lat2)sin^2(dlon/2), R = 6371', None, {}, job,
             {'code_term': str(got)[:1500], 'reference_term': str(want)[:1500], 'replay_kind': 'haversine'})
    else:
        res['inconclusive'] = 'solver unknown on the haversine formula identity'
    res['samples'].append({'code_term': str(got)[:600]})
    return res
