"""Shared machinery of the property checks: MIR dump -> parallel symbolic exploration by input slices ->
per-leaf solver obligations -> native replay of counterexamples -> known-findings triage -> evidence file.

Exit status convention (DESIGN §1.5): 0 = held on everything explored (possibly with KNOWN-FINDING lines),
1 = at least one reproduced violation not listed in known_findings.jsonl, 2 = inconclusive (encoder gap,
non-reproducing counterexample, solver timeout): never reported as success.
"""
import json
import multiprocessing as mp
import os
import random
import sys
import time
import traceback

import z3

ROOT = os.path.dirname(os.path.dirname(os.path.abspath(__file__)))
sys.path.insert(0, ROOT)

from mirsym import loader, validate                      # noqa: E402
from mirsym.execu import ExecError, Program, Executor     # noqa: E402
from mirsym.values import *                               # noqa: E402,F401
from mirsym import builtins as _b                         # noqa: E402
from mirsym import deku_bi, fmt_bi, float_bi, coll_bi, iter_bi, std_bi     # noqa: E402,F401

SEED = int(os.environ.get('VERIF_SEED', '0') or 0)
NPROC = int(os.environ.get('VERIF_JOBS', '16'))
OUT = os.path.join(ROOT, 'out')
EVID = os.path.join(ROOT, 'evidence')
KNOWN = os.path.join(ROOT, 'known_findings.jsonl')


class Inconclusive(Exception):
    pass


# ------------------------------------------------------------------------------------ second solver
# Every VERIF_CROSSCHECK_EVERY-th `unsat` verdict of the Prover is re-decided by cvc5 on the SMT-LIB2 text of the
# same query (DESIGN §1.4).  A `sat` answer from cvc5 makes the whole check INCONCLUSIVE (solvers disagree).
CROSS_EVERY = int(os.environ.get('VERIF_CROSSCHECK_EVERY', '0') or 0)
CROSS_TLIMIT_MS = int(os.environ.get('VERIF_CROSSCHECK_TLIMIT_MS', '20000'))
CROSS = {'checked': 0, 'agree': 0, 'disagree': 0, 'undecided': 0, 'time_s': 0.0, 'disagreements': []}
_cross_n = [0]


def cross_check(assertions, tag=''):
    """assertions: z3 Boolean terms whose conjunction z3 found unsat.  Ask cvc5."""
    import subprocess
    s = z3.Solver()
    for a in assertions:
        s.add(a)
    txt = '(set-logic ALL)\n' + s.to_smt2()
    t = time.time()
    try:
        p = subprocess.run(['cvc5', '--lang', 'smt2', '--tlimit=%d' % CROSS_TLIMIT_MS], input=txt, text=True,
                           stdout=subprocess.PIPE, stderr=subprocess.STDOUT, timeout=CROSS_TLIMIT_MS / 1000 + 20)
        out = p.stdout.strip().splitlines()
    except Exception as e:     # noqa
        out = ['error: %r' % (e,)]
    CROSS['time_s'] += time.time() - t
    CROSS['checked'] += 1
    verdict = out[0].strip() if out else ''
    if any('(error' in ln or ln.startswith('error') for ln in out):
        verdict = 'error'
    if verdict == 'unsat':
        CROSS['agree'] += 1
    elif verdict == 'sat':
        CROSS['disagree'] += 1
        os.makedirs(OUT, exist_ok=True)
        path = os.path.join(OUT, 'disagree_%d_%d.smt2' % (os.getpid(), CROSS['disagree']))
        open(path, 'w').write(txt)
        CROSS['disagreements'].append({'tag': tag, 'smt2': path})
    else:
        CROSS['undecided'] += 1
    return verdict


def _cross_maybe(assertions, tag=''):
    if not CROSS_EVERY:
        return
    _cross_n[0] += 1
    if _cross_n[0] % CROSS_EVERY == 0:
        cross_check(assertions, tag)


def cross_snapshot():
    d = {k: CROSS[k] for k in ('checked', 'agree', 'disagree', 'undecided', 'time_s')}
    d['disagreements'] = list(CROSS['disagreements'])
    return d


def cross_delta(before):
    now = cross_snapshot()
    d = {k: now[k] - before[k] for k in ('checked', 'agree', 'disagree', 'undecided', 'time_s')}
    d['disagreements'] = now['disagreements'][len(before['disagreements']):]
    return d


# ------------------------------------------------------------------------------------ frame bits
def frame_bv(bs):
    """All bytes as one bit-vector (first byte most significant)."""
    return bs[0] if len(bs) == 1 else z3.Concat(*bs)


def fbits(bs, first, last):
    """Bits first..last of the frame in Annex 10 numbering (1 = first bit transmitted)."""
    n = 8 * len(bs)
    v = frame_bv(bs)
    return z3.Extract(n - first, n - last, v)


def zx(v, w):
    return z3.ZeroExt(w - v.size(), v) if v.size() < w else v


def ival(x, w=None):
    """z3 term of an Int value (raw bits)."""
    return to_bv(x)


# ------------------------------------------------------------------------------------ slices
# A work split of the 32 type codes (any partition is sound; this one balances the load)
TC_RANGES = [(0, 0), (1, 4), (5, 8), (9, 18), (19, 19), (20, 22), (23, 27), (28, 28), (29, 29), (30, 30), (31, 31)]

def df_slices(L, split_ident=True):
    """Partition the input space of an L-byte buffer into independent slices (lists of z3-expression strings over
    `b`).  The partition is only a work split: the union of the slices is the whole space (checked by a solver
    query in `check_partition`)."""
    if L == 0:
        return [[]]
    out = []
    for df in range(32):
        base = ['z3.LShR(b[0],3)==%d' % df]
        if df in (17, 18) and L >= 5:
            pre = [base]
            if df == 17:
                # CA 1..3 (reserved capability) is explored as one slice of its own
                ca = '(b[0]&7)'
                out.append(base + ['z3.And(z3.UGE(%s,1),z3.ULE(%s,3))' % (ca, ca)])
                pre = [base + ['z3.Or(%s==0,z3.UGE(%s,4))' % (ca, ca)]]
            for bb in pre:
                for lo, hi in TC_RANGES:
                    tc = 'z3.LShR(b[4],3)'
                    s = bb + ['z3.And(z3.UGE(%s,%d),z3.ULE(%s,%d))' % (tc, lo, tc, hi)]
                    if (lo, hi) == (1, 4) and L >= 8 and split_ident:
                        out += ident_split(s)
                    else:
                        out.append(s)
        elif df in (20, 21) and L >= 5:
            out.append(base + ['b[4]!=0x20'])
            s = base + ['b[4]==0x20']
            if L >= 8 and split_ident:
                out += ident_split(s)
            else:
                out.append(s)
        else:
            out.append(base)
    return out


def ident_split(s):
    """split on which of the first three characters are spaces (any split is sound; this balances the load)"""
    cs = ['z3.Extract(7,2,b[5])==32',
          'z3.Concat(z3.Extract(1,0,b[5]),z3.Extract(7,4,b[6]))==32',
          'z3.Concat(z3.Extract(3,0,b[6]),z3.Extract(7,6,b[7]))==32']
    out = [s]
    for c in cs:
        out = [x + [y] for x in out for y in (c, 'z3.Not(%s)' % c)]
    return out


def slice_constraints(spec, bs):
    b = bs
    return [eval(e, {'z3': z3, 'b': b}) for e in spec]


def check_partition(L, slices):
    """The slices cover every L-byte input and are pairwise disjoint (solver-checked)."""
    if L == 0:
        return True
    bs = [z3.BitVec('b%d' % i, 8) for i in range(L)]
    conds = [z3.And(*slice_constraints(s, bs)) if s else z3.BoolVal(True) for s in slices]
    s = z3.Solver()
    s.add(z3.Not(z3.Or(*conds)))
    if s.check() != z3.unsat:
        return False
    # disjointness: at most one holds  (sum of indicator bits <= 1)
    s = z3.Solver()
    s.add(z3.AtLeast(*conds, 2) if len(conds) >= 2 else z3.BoolVal(False))
    return s.check() == z3.unsat


# ------------------------------------------------------------------------------------ worker side
_W = {}


def _worker_init(mir_files, crate_dirs, check_module):
    try:
        import ctypes
        import signal
        ctypes.CDLL('libc.so.6').prctl(1, signal.SIGKILL)      # PR_SET_PDEATHSIG: die with the driver
    except Exception:
        pass
    _W.pop('init_error', None)
    try:
        prog = Program(loader.REPO)
        for f, d in zip(mir_files, crate_dirs):
            prog.add_mir(open(f).read(), d)
        _W['prog'] = prog
        _W['check'] = __import__(check_module, fromlist=['x'])
    except Exception as e:      # noqa
        # an exception in a pool initializer makes multiprocessing respawn workers for ever: record it instead and
        # let every job report "inconclusive"
        _W['init_error'] = 'MIR of the current tree could not be loaded: %s: %s' % (type(e).__name__, str(e)[:300])
    z3.set_param('smt.random_seed', SEED)


def _worker_run(job):
    t0 = time.time()
    log = os.environ.get('VERIF_JOBLOG')
    if log:
        open(log, 'a').write('START %s\n' % ({k: v for k, v in job.items() if not str(k).startswith('files')},))
    if _W.get('init_error'):
        return {'job': {k: v for k, v in job.items() if not str(k).startswith('files')}, 'inconclusive': 'encoder incomplete: ' + _W['init_error']}
    try:
        cs = cross_snapshot()
        res = _W['check'].run_job(_W['prog'], job)
        res['wall_s'] = time.time() - t0
        if CROSS_EVERY:
            res['crosscheck'] = cross_delta(cs)
        res['job'] = job
        if log:
            open(log, 'a').write('DONE %.1fs %s\n' % (time.time() - t0, {k: v for k, v in job.items() if not str(k).startswith('files')}))
        return res
    except ExecError as e:
        return {'job': job, 'inconclusive': 'encoder incomplete: %s' % e, 'trace': traceback.format_exc()[-1500:]}
    except Exception as e:     # noqa
        return {'job': job, 'inconclusive': 'internal error: %r' % (e,), 'trace': traceback.format_exc()[-2500:]}


_FPABS = {}
_FPABS_KEEP = []


def abstract_fp(t):
    """Replace every floating-point *computation* (arithmetic, conversions, libm applications) inside t by a fresh
    constant per distinct term, keeping if-then-else structure, variables and constants.  The result only needs
    equality reasoning; validity of the abstraction implies validity of t (congruence is lost, nothing is added)."""
    tid = t.get_id()
    hit = _FPABS_DONE.get(tid)
    if hit is not None:
        return hit
    r = _abstract_fp(t)
    _FPABS_DONE[tid] = r
    _FPABS_KEEP.append(t)
    return r


_FPABS_DONE = {}


def _abstract_fp(t):
    subs = []
    seen = set()
    stack = [t]
    while stack:
        x = stack.pop()
        i = x.get_id()
        if i in seen:
            continue
        seen.add(i)
        if z3.is_fp(x) or z3.is_fprm(x):
            k = x.decl().kind()
            if k == z3.Z3_OP_ITE:
                stack.extend(x.children())
                continue
            if z3.is_const(x) or z3.is_fp_value(x):
                continue
            c = _FPABS.get(i)
            if c is None:
                c = z3.Const('fpval!%d' % len(_FPABS), x.sort())
                _FPABS[i] = c
                _FPABS_KEEP.append(x)
            subs.append((x, c))
            continue
        if z3.is_bool(x) and x.num_args() > 0 and any(z3.is_fp(ch) for ch in x.children()) and x.decl().kind() != z3.Z3_OP_EQ and x.decl().kind() != z3.Z3_OP_ITE:
            c = _FPABS.get(i)
            if c is None:
                c = z3.Bool('fppred!%d' % len(_FPABS))
                _FPABS[i] = c
                _FPABS_KEEP.append(x)
            subs.append((x, c))
            continue
        stack.extend(x.children())
    if not subs:
        return t
    return z3.substitute(t, *subs)


class Prover:
    """Per-leaf obligation discharge with one incremental solver.  A claim that is valid already under the
    slice constraints alone (no path condition) is cached by AST identity and discharges every later
    occurrence of the same term (the decoded value of a field read before a fork is one shared term)."""

    def __init__(self, timeout_ms=int(os.environ.get('VERIF_PROVER_TIMEOUT_MS', '120000')), base=None):
        self.s = z3.Solver()
        self.s.set('timeout', timeout_ms)
        self.obligations = 0
        self.discharged = 0
        self.by_cache = 0
        self.solver_s = 0.0
        self.timeouts = 0
        self.depth = 0
        self.base = z3.Solver()
        self.base.set('timeout', 30000)
        for c in (base or []):
            self.base.add(c)
        self.valid = {}
        self.notvalid = set()
        self.abstract = False

    def set_path(self, pc):
        if self.abstract:
            pc = [abstract_fp(c) for c in pc]
        self._set_path(pc)

    def _set_path(self, pc):
        while self.depth:
            self.s.pop()
            self.depth -= 1
        self.s.push()
        self.depth = 1
        for c in pc:
            self.s.add(c)

    def prove(self, claim, count=True):
        """Returns None if `claim` holds on the whole path, else a model (counterexample) or 'unknown'."""
        if count:
            self.obligations += 1
        if claim is True:
            if count:
                self.discharged += 1
            return None
        if claim is False:
            claim = z3.BoolVal(False)
        if self.abstract:
            claim = abstract_fp(claim)
        key = claim.get_id()
        if key in self.valid:
            if count:
                self.discharged += 1
                self.by_cache += 1
            return None
        t = time.time()
        if key not in self.notvalid:
            self.base.push()
            self.base.add(z3.Not(claim))
            rb = self.base.check()
            self.base.pop()
            if rb == z3.unsat:
                self.valid[key] = claim
                self.solver_s += time.time() - t
                _cross_maybe(list(self.base.assertions()) + [z3.Not(claim)], 'base')
                if count:
                    self.discharged += 1
                return None
            self.notvalid.add(key)
            self.valid.setdefault(('keep', key), claim)
        self.s.push()
        self.s.add(z3.Not(claim))
        r = self.s.check()
        m = self.s.model() if r == z3.sat else None
        self.s.pop()
        self.solver_s += time.time() - t
        if r == z3.unsat:
            if count:
                self.discharged += 1
            _cross_maybe(list(self.s.assertions()) + [z3.Not(claim)], 'path')
            return None
        if r == z3.sat:
            return m
        self.timeouts += 1
        return 'unknown'

    def implied(self, cond):
        """Is cond implied by the current path?  (auxiliary query, not an obligation)"""
        return self.prove(cond, count=False) is None

    def feasible(self, cond=None):
        t = time.time()
        self.s.push()
        if cond is not None:
            self.s.add(abstract_fp(cond) if self.abstract else cond)
        r = self.s.check()
        m = self.s.model() if r == z3.sat else None
        self.s.pop()
        self.solver_s += time.time() - t
        return m


def model_bytes(m, bs):
    return bytes(m.eval(b, model_completion=True).as_long() for b in bs)


def explore_from_bytes(prog, L, spec, entry='Frame::from_bytes', executor=None):
    """Symbolically execute Frame::from_bytes on an L-byte buffer restricted to slice `spec`."""
    ex = executor or Executor(prog, _b.B)
    bs = [z3.BitVec('b%d' % i, 8) for i in range(L)]
    arr = Arr([Int('u8', b) for b in bs])
    fn = prog.items[prog.find_free_fn(entry)]
    pc = slice_constraints(spec, bs)
    leaves = ex.run(fn, [Ref(('V', arr))], pc=pc)
    return ex, bs, leaves


def _vname(e):
    return e.variant if e.variant is not None else 'unit'


def me_sig(me):
    s = me.variant
    try:
        if me.variant == 'AircraftOperationStatus':
            s += '.' + _vname(me.f[0])
        elif me.variant == 'AirborneVelocity':
            for x in me.f[0].f:
                if isinstance(x, Enum) and x.ty == 'AirborneVelocitySubType':
                    s += '.' + _vname(x)
    except Exception:
        pass
    return s


def leaf_sig(l):
    """Short path signature of a from_bytes leaf (role key prefix)."""
    if l.kind != 'return':
        return l.kind
    v = l.value
    if v.variant == 'Err':
        return 'Err:' + v.f[0].variant
    df = v.f[0].f[0]
    s = df.variant
    if df.variant == 'ADSB':
        cap = df.f[0].f[0]
        s += '/CA=' + _vname(cap) + '/' + me_sig(df.f[0].f[2])
    elif df.variant == 'TisB':
        s += '/' + me_sig(df.f[0].f[2])
    elif df.variant in ('CommBAltitudeReply', 'CommBIdentityReply'):
        for x in df.f:
            if isinstance(x, Enum) and x.ty == 'BDS':
                s += '/' + x.variant
    elif df.variant in ('AllCallReply', 'ModeSExtendedSquitter'):
        for x in df.f:
            if isinstance(x, Enum) and x.ty == 'Capability':
                s += '/CA=' + _vname(x)
    return s


# ------------------------------------------------------------------------------------ driver side
def load_known():
    out = []
    if os.path.exists(KNOWN):
        for ln in open(KNOWN):
            ln = ln.strip()
            if ln and not ln.startswith('#'):
                out.append(json.loads(ln))
    return out


def dump_all(crates, features='std'):
    """Dump MIR for the crates into .cache/run files; returns (files, dirs, info)."""
    os.makedirs(loader.CACHE, exist_ok=True)
    files, dirs = [], []
    info = {'dump_s': {}, 'features': features, 'source_digest': loader.source_digest()}
    for c in crates:
        text, dt = loader.dump_mir(c, features)
        p = os.path.join(loader.CACHE, 'mir-%s-%s-%d.mir' % (c, features, os.getpid()))
        open(p, 'w').write(text)
        files.append(p)
        dirs.append(loader.CRATES[c])
        info['dump_s'][c] = round(dt, 2)
    return files, dirs, info


def run_jobs(check_module, jobs, mir_files, crate_dirs, nproc=None):
    nproc = nproc or NPROC
    rnd = random.Random(SEED)
    jobs = list(jobs)
    if SEED:
        rnd.shuffle(jobs)
    if nproc <= 1 or len(jobs) <= 1:
        _worker_init(mir_files, crate_dirs, check_module)
        return [_worker_run(j) for j in jobs]
    ctx = mp.get_context('fork')
    with ctx.Pool(min(nproc, len(jobs)), initializer=_worker_init, initargs=(mir_files, crate_dirs, check_module)) as pool:
        return pool.map(_worker_run, jobs, chunksize=1)


def finish(prop, tier, t0, results, coverage, assumptions, level='model_checking', replay_fn=None):
    """Aggregate worker results, replay counterexamples, triage against known findings, write evidence, exit."""
    os.makedirs(os.path.join(OUT, prop), exist_ok=True)
    os.makedirs(EVID, exist_ok=True)
    inconclusive = [r for r in results if r.get('inconclusive')]
    violations = []
    for r in results:
        violations += r.get('violations', [])
    known = [k for k in load_known() if prop in (k.get('property') if isinstance(k.get('property'), list) else [k.get('property')])]
    reported = []
    status = 0
    seen_roles = {}
    groups = {}
    for v in violations:
        seen_roles.setdefault(v['role'], []).append(v)
        # counterexamples attributed to a known input class are triaged separately from the others of the same role
        groups.setdefault((v['role'], v.get('known_id') or ''), []).append(v)
    n_viol = 0
    lines = []
    known_seen = {}
    for (role, kid_), vs in sorted(groups.items()):
        v = vs[0]
        ok = None
        if replay_fn is not None:
            try:
                ok = replay_fn(v)
            except Exception as e:   # noqa
                ok = None
                v['replay_error'] = repr(e)
        v['reproduced'] = ok
        kf = [k for k in known if k.get('status') == 'known' and role_matches(k.get('role'), role)
              and (not k.get('excuse') or k.get('id') == kid_)]
        if ok is False or ok is None:
            inconclusive.append({'inconclusive': 'counterexample for role %s did not reproduce natively (%r)' % (role, v.get('replay_error')),
                                 'job': v.get('job')})
            continue
        if kf:
            kid = kf[0].get('id', role)
            if kid not in known_seen:
                known_seen[kid] = [kf[0], role, v.get('witness'), 0]
            known_seen[kid][3] += len(vs)
            continue
        n_viol += 1
        path = os.path.join(OUT, prop, '%d.json' % n_viol)
        json.dump(v, open(path, 'w'), indent=1, default=str)
        lines.append('VIOLATION property=%s replay=%s' % (prop, path))
        lines.append('  role=%s witness=%s %s' % (role, v.get('witness'), v.get('detail', '')))
        status = 1
    for kid, (k, role, wit, cnt) in sorted(known_seen.items()):
        print('KNOWN-FINDING: property=%s %s: %s (e.g. role %s, witness %s; %d counterexamples, all inside the recorded input class)' % (
            prop, kid, k.get('description', ''), role, wit, cnt))
    for ln in lines:
        print(ln)
    if inconclusive:
        for r in inconclusive[:10]:
            print('INCONCLUSIVE: %s (job %s)' % (r['inconclusive'], r.get('job')), file=sys.stderr)
            if r.get('trace'):
                print(r['trace'], file=sys.stderr)
        if status == 0:
            status = 2
    cov = dict(coverage)
    cc = [r['crosscheck'] for r in results if r.get('crosscheck')]
    if cc:
        tot = {k: sum(c[k] for c in cc) for k in ('checked', 'agree', 'disagree', 'undecided')}
        tot['time_s'] = round(sum(c['time_s'] for c in cc), 1)
        tot['every'] = CROSS_EVERY
        tot['solver'] = 'cvc5 1.0.3 on the SMT-LIB2 text of every %d-th unsat verdict of z3' % CROSS_EVERY
        dis = [d for c in cc for d in c['disagreements']]
        if dis:
            tot['disagreements'] = dis[:10]
            inconclusive.append({'inconclusive': 'z3 and cvc5 disagree on %d queries, e.g. %s' % (len(dis), dis[0]['smt2'])})
            for r in inconclusive[-1:]:
                print('INCONCLUSIVE: %s' % r['inconclusive'], file=sys.stderr)
            if status == 0:
                status = 2
        cov['second_solver'] = tot
    cov.setdefault('violations_by_role', {k: len(v) for k, v in seen_roles.items()})
    cov['known_findings_seen'] = {k: v[3] for k, v in known_seen.items()}
    ev = {
        'property_id': prop,
        'tier': tier,
        'seed': SEED,
        'level': level,
        'coverage': cov,
        'assumptions': assumptions,
        'wall_s': round(time.time() - t0, 2),
        'violations': n_viol,
    }
    if status == 2:
        ev['coverage']['inconclusive'] = [r['inconclusive'] for r in inconclusive[:20]]
    json.dump(ev, open(os.path.join(EVID, prop + '.json'), 'w'), indent=1, default=str)
    print('%s %s: %s  (%d obligations, %d discharged, %d paths, %.1fs)' % (
        prop, tier, {0: 'HOLDS on everything explored', 1: 'VIOLATED', 2: 'INCONCLUSIVE'}[status],
        cov.get('obligations', 0), cov.get('discharged', 0), cov.get('states', 0), time.time() - t0))
    sys.exit(status)


def role_matches(pattern, role):
    if pattern is None:
        return False
    import fnmatch
    return fnmatch.fnmatchcase(role, pattern)


def merge_counts(results, keys):
    out = {k: 0 for k in keys}
    for r in results:
        for k in keys:
            out[k] += r.get(k, 0) or 0
    return out


def merge_dict_counts(results, key):
    out = {}
    for r in results:
        for k, v in (r.get(key) or {}).items():
            out[k] = out.get(k, 0) + v
    return out
