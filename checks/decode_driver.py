"""Driver for the decode-level properties (exploration of Frame::from_bytes by length and input slice)."""
import json
import os
import sys
import time

from checks import framework as fw
from mirsym import validate as V

LENGTHS = {
    # property -> tier -> list of buffer lengths
    'C02': {'quick': [0, 1, 4, 6, 7, 8, 13, 14, 15], 'thorough': list(range(0, 33))},
    'C03': {'quick': [7, 14, 16], 'thorough': [7, 8, 9, 14, 15, 16, 32]},
    'C04': {'quick': [7, 14], 'thorough': [7, 8, 14, 15, 32]},
    'C06': {'quick': [7, 14], 'thorough': [7, 8, 14, 15, 32]},
    'C08': {'quick': [14], 'thorough': [14, 15, 32]},
    'C09': {'quick': [7, 14], 'thorough': [7, 8, 14, 15, 32]},
    'C10': {'quick': [14], 'thorough': [14, 15, 32]},
    'C07': {'quick': [14], 'thorough': [14, 15, 32]},
    'C01': {'quick': [0, 1, 4, 6, 7, 8, 13, 14], 'thorough': list(range(0, 33))},
}

DF_FILTER = {
    # slices that can matter for the property (others are skipped: the property says nothing about them)
    'C08': lambda df: df in (17, 18, 20, 21),
    'C10': lambda df: df in (17, 18, 20, 21),
    'C07': lambda df: df in (17, 18),
}

ASSUME = [
    'deku 0.18.1 run time, std::io::Cursor, default read_exact/read_to_end are modelled as builtins (validated: '
    'one witness per explored path is decoded by the real build and compared field by field)',
    'core integer/array/Vec/String primitives are builtins; tracing/logging is outside the claim',
    'bounds: buffer length as listed in coverage.lengths; bytes fully symbolic',
]


def slices_for(prop, L):
    sl = fw.df_slices(L)
    flt = DF_FILTER.get(prop)
    if flt and L >= 1:
        keep = []
        for s in sl:
            df = int(s[0].split('==')[1])
            if flt(df):
                keep.append(s)
        return keep, len(sl)
    return sl, len(sl)


def base_len_for(spec, L):
    if not spec:
        return None
    df = int(spec[0].split('==')[1])
    need = 7 if df in (0, 4, 5, 11) else 14
    return need if L > need else None


def replay_violation(v):
    """Native confirmation: the real build returns, on the witness, exactly what the encoder predicted."""
    w = v.get('witness')
    pred = v.get('predicted')
    if w is None or pred is None:
        return None
    ok_all = True
    for profile in ('debug', 'release'):
        r = V.native(['decode ' + w], profile)[0]
        v.setdefault('native', {})[profile] = r
        if pred.get('panic'):
            ok_all &= ('panic' in r)
        elif pred['ok']:
            if not r.get('ok'):
                ok_all = False
            else:
                d = V.tree_equal(_retuple(pred['tree']), V.debug_parse(r['debug']))
                if d:
                    v['native_diff'] = d
                    ok_all = False
        else:
            ok_all &= (r.get('ok') is False and r.get('err', '').startswith(pred['err']))
    return ok_all


def _retuple(t):
    if isinstance(t, (list, tuple)):
        return tuple(_retuple(x) if isinstance(x, (list, tuple)) and x and isinstance(x[0], str) and x[0] in ('node', 'list', 'num', 'str', 'bool', 'opaque') else
                     ([_retuple(y) for y in x] if isinstance(x, list) else x) for x in t)
    return t


def main(prop, tier):
    results, coverage, t0 = run(prop, tier)
    fw.finish(prop, tier, t0, results, coverage, ASSUME, level='model_checking', replay_fn=replay_violation)


def run(prop, tier):
    t0 = time.time()
    files, dirs, info = fw.dump_all(['adsb_deku'])
    lengths = LENGTHS[prop][tier]
    jobs = []
    nslices = 0
    for L in lengths:
        sl, total = slices_for(prop, L)
        if not fw.check_partition(L, fw.df_slices(L)):
            print('INCONCLUSIVE: slice partition of length %d is not a partition' % L, file=sys.stderr)
            sys.exit(2)
        nslices += len(sl)
        for s in sl:
            j = {'L': L, 'spec': s, 'props': [prop]}
            if prop == 'C02':
                j['base_len'] = base_len_for(s, L)
            if prop == 'C01' and L in (7, 14):
                j['ops'] = True
            jobs.append(j)
    # longest jobs first
    jobs.sort(key=lambda j: -(j['L'] * 10 + (5 if any('Extract' in e for e in j['spec']) else 0)))
    V.build_replay('debug')
    V.build_replay('release')
    results = fw.run_jobs('checks.decode_props', jobs, files, dirs)
    for f in files:
        try:
            os.remove(f)
        except OSError:
            pass
    cnt = fw.merge_counts(results, ['paths', 'obligations', 'discharged', 'steps', 'solver_s', 'explore_solver_s',
                                    'explore_checks', 'timeouts', 'unknown'])
    samples = []
    for r in results:
        samples += r.get('samples', [])[:1]
    sigs = fw.merge_dict_counts(results, 'sigs')
    fn_calls = fw.merge_dict_counts(results, 'fn_calls')
    bi_calls = fw.merge_dict_counts(results, 'builtin_calls')
    coverage = {
        'states': cnt['paths'],
        'transitions': cnt['steps'],
        'traces_validated_against_impl': 0,
        'samples': samples[:12],
        'obligations': cnt['obligations'],
        'discharged': cnt['discharged'],
        'lengths': lengths,
        'slices': nslices,
        'path_classes': sigs,
        'functions_encoded': len(fn_calls),
        'mir_function_calls': dict(sorted(fn_calls.items(), key=lambda kv: -kv[1])[:40]),
        'builtins_hit': bi_calls,
        'solver': 'z3 ' + __import__('z3').get_version_string(),
        'solver_s_obligations': round(cnt['solver_s'], 2),
        'solver_s_exploration': round(cnt['explore_solver_s'], 2),
        'solver_checks_exploration': cnt['explore_checks'],
        'mir': info,
        'explanation': 'symbolic execution of the MIR of Frame::from_bytes (regenerated from /repo) over fully symbolic '
                       'buffers of the listed lengths; every leaf yields solver obligations for the property',
    }
    if cnt['unknown']:
        results.append({'inconclusive': '%d feasibility checks returned unknown during exploration' % cnt['unknown']})
    return results, coverage, t0
