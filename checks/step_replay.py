"""Native replay of counterexamples of the tracker-step lemmas (C01 tracker part, C12-C15).

A counterexample is a solver model of (arbitrary valid pre-state, arbitrary frame of a class, receiver position).
Both crates implement serde's Deserialize under their `serde` feature, so the model is written out in serde's JSON
format and `/verif/replay_step` (real rsadsb_common + adsb_deku, no source hooks) runs the real `Airplanes::action` /
`prune` / `aircraft_details` / `all_position` on it.  The verdict is re-derived from the *native* pre/post states by
a few lines of Python per role (below) -- independent of the symbolic executor and of the reference model used by
the solver.  Roles whose expected value depends on libm / get_position results (uninterpreted in the model) cannot
be judged this way and are marked `not replayable`.
"""
import json
import math
import os
import subprocess
import time

import z3

from mirsym.values import *          # noqa
from mirsym import validate as V

ROOT = os.path.dirname(os.path.dirname(os.path.abspath(__file__)))
CRATE = os.path.join(ROOT, 'replay_step')
CACHE = os.environ.get('VERIF_CACHE', os.path.join(ROOT, '.cache'))
EXE = os.path.join(CACHE, 'target-replay-step', 'debug', 'replay_step')


class NotReplayable(Exception):
    pass


ALTERED = []          # notes about values of the model that had to be changed for serialisation
OPAQUE_TYPES = {}     # tag of an opaque placeholder field -> its Rust type (filled by tracker.sym_typed)


def build():
    env = dict(os.environ, CARGO_TARGET_DIR=os.path.join(CACHE, 'target-replay-step'), CARGO_NET_OFFLINE='true')
    lock = os.path.join(os.environ.get('VERIF_REPO', '/repo'), 'Cargo.lock')
    try:
        open(os.path.join(CRATE, 'Cargo.lock'), 'w').write(open(lock).read())
    except OSError:
        pass
    p = subprocess.run(['cargo', 'build', '--offline', '--quiet'], cwd=CRATE, env=env, stdout=subprocess.PIPE,
                       stderr=subprocess.STDOUT, text=True)
    if p.returncode != 0:
        raise RuntimeError('replay_step build failed:\n' + p.stdout[-3000:])
    return EXE


# ------------------------------------------------------------------------------------------ model -> serde JSON
def _ev_int(m, x, signed=False):
    if isinstance(x, int):
        return x
    r = m.eval(x, model_completion=True)
    v = r.as_long()
    if signed and v >> (r.size() - 1):
        v -= 1 << r.size()
    return v


def _ev_bool(m, b):
    if isinstance(b, bool):
        return b
    return z3.is_true(m.eval(b, model_completion=True))


def _ev_float(m, f):
    if f.concrete:
        x = f.v
    else:
        x = V.fp_to_float(m.eval(f.v, model_completion=True))
    if x != x or math.isinf(x):
        # JSON cannot carry NaN / inf: use 0.0 and remember that the replayed state is not exactly the model
        ALTERED.append('non-finite float replaced by 0.0')
        x = 0.0
    if f.ty == 'f32':
        import struct
        x = struct.unpack('<f', struct.pack('<f', x))[0]
    return x


def to_json(prog, v, m):
    src = prog.src
    if isinstance(v, bool) or isinstance(v, z3.BoolRef):
        return _ev_bool(m, v)
    if isinstance(v, Int):
        return _ev_int(m, v.v, INT_TYPES[v.ty][1])
    if isinstance(v, Flt):
        return _ev_float(m, v)
    if isinstance(v, StrLit):
        return v.s
    if isinstance(v, RString):
        out = []
        for seg in v.segs:
            if isinstance(seg, str):
                out.append(seg)
            elif seg[0] == 'chars':
                out.append(''.join(chr(_ev_int(m, c.v)) for c in seg[1]))
            else:
                raise NotReplayable('formatted string')
        return ''.join(out)
    if isinstance(v, (Arr, Vec)):
        return [to_json(prog, x, m) for x in v.e]
    if isinstance(v, Tup):
        return [to_json(prog, x, m) for x in v.f]
    if isinstance(v, Box):
        return to_json(prog, v.v, m)
    if isinstance(v, Ref):
        if v.base[0] == 'V' and not v.projs:
            return to_json(prog, v.base[1], m)
        raise NotReplayable('reference')
    if isinstance(v, BMap):
        out = []
        for k, st in v.ents:
            kb = to_json(prog, k, m)
            out.append([''.join('%02x' % b for b in kb), to_json(prog, st, m)])
        return out
    if isinstance(v, Struct):
        if v.ty in ('SystemTime', 'Instant'):
            return {'secs_since_epoch': _ev_int(m, to_bv(v.f[0])), 'nanos_since_epoch': _ev_int(m, to_bv(v.f[1]))}
        if v.ty == 'Duration':
            return {'secs': _ev_int(m, to_bv(v.f[0])), 'nanos': _ev_int(m, to_bv(v.f[1]))}
        if v.ty == 'Airplanes':
            return to_json(prog, v.f[0], m)
        names = src.structs.get(v.ty)
        if names and len(names) == len(v.f):
            return {n: to_json(prog, x, m) for n, x in zip(names, v.f)}
        if len(v.f) == 1:
            return to_json(prog, v.f[0], m)           # newtype struct
        return [to_json(prog, x, m) for x in v.f]
    if isinstance(v, Enum):
        if v.ty == 'Option':
            d = _ev_int(m, opt_discr(v)) if v.variant is None else (1 if v.variant == 'Some' else 0)
            return to_json(prog, v.f[0], m) if d == 1 else None
        variant = v.variant
        if variant is None:
            d = _ev_int(m, v.discr, True)
            en = src.enums.get(v.ty) or {}
            names = [n for n, x in en.items() if x == d or (x & ((1 << 64) - 1)) == (d & ((1 << 64) - 1))]
            if not names:
                raise NotReplayable('no variant of %s has discriminant %d' % (v.ty, d))
            variant = names[0]
        if not v.f:
            return variant
        names = src.vfields.get((v.ty, variant))
        if names and len(names) == len(v.f):
            return {variant: {n: to_json(prog, x, m) for n, x in zip(names, v.f)}}
        if len(v.f) == 1:
            return {variant: to_json(prog, v.f[0], m)}
        return {variant: [to_json(prog, x, m) for x in v.f]}
    if isinstance(v, Opaque) and v.kind == 'field' and v.p in OPAQUE_TYPES:
        # a field the executed code never inspected (inspecting an opaque value stops the run): any value will do
        return default_json(prog, OPAQUE_TYPES[v.p])
    raise NotReplayable('value %r' % (v,))


def default_json(prog, ty, depth=0):
    import re
    src = prog.src
    ty = ty.strip()
    if ty in INT_TYPES or ty in FLOAT_TYPES:
        return 0
    if ty == 'bool':
        return False
    if ty == 'String':
        return ''
    if ty == 'ICAO':
        return [0, 0, 0]
    if depth > 6:
        raise NotReplayable('type ' + ty)
    if re.match(r'^Option<', ty):
        return None
    m = re.match(r'^\[(.*);\s*(\d+)\]$', ty)
    if m:
        return [default_json(prog, m.group(1), depth + 1) for _ in range(int(m.group(2)))]
    if re.match(r'^Vec<', ty):
        return []
    en = src.enums.get(ty)
    if en:
        for name in en:
            if (ty, name) not in src.vfields and not _tuple_variant(src, ty, name):
                return name
        raise NotReplayable('enum %s has no unit variant' % ty)
    if ty in src.ftypes and src.ftypes[ty]:
        return {n: default_json(prog, t, depth + 1) for n, t, _a in src.ftypes[ty]}
    if ty in src.tstructs:
        ts = src.tstructs[ty]
        return default_json(prog, ts[0], depth + 1) if len(ts) == 1 else [default_json(prog, t, depth + 1) for t in ts]
    raise NotReplayable('type ' + ty)


def _tuple_variant(src, ty, name):
    import re
    for txt in src.files.values():
        if re.search(r'\benum\s+%s\b' % re.escape(ty), txt) and re.search(r'\b%s\s*\(' % re.escape(name), txt):
            return True
    return False


def step_json(prog, ctx, m):
    """ctx: dict(op, pre, frame?, recv?, max_range?, T?, icao?, nows?) with mirsym values; m: z3 model"""
    del ALTERED[:]
    d = {'op': ctx['op'], 'pre': to_json(prog, ctx['pre'], m)}
    if ctx.get('frame') is not None:
        d['frame'] = to_json(prog, ctx['frame'], m)
    if ctx.get('recv') is not None:
        d['recv'] = to_json(prog, ctx['recv'], m)
    if ctx.get('max_range') is not None:
        d['max_range'] = to_json(prog, ctx['max_range'], m)
    if ctx.get('T') is not None:
        d['filter_time'] = _ev_int(m, ctx['T'])
    if ctx.get('icao') is not None:
        d['icao'] = to_json(prog, ctx['icao'], m)
    if ctx.get('nows'):
        d['model_clock'] = [[_ev_int(m, s), _ev_int(m, n)] for s, n in ctx['nows']]
    if ALTERED:
        d['altered'] = sorted(set(ALTERED))
    return d


# ------------------------------------------------------------------------------------------ native run + verdict
def run_native(step, keep_as=None):
    path = keep_as or os.path.join(CACHE, 'step_%d_%d.json' % (os.getpid(), int(time.time() * 1e6) % 10 ** 9))
    os.makedirs(os.path.dirname(path), exist_ok=True)
    json.dump(step, open(path, 'w'))
    try:
        p = subprocess.run([EXE, path], stdout=subprocess.PIPE, stderr=subprocess.PIPE, text=True, timeout=60)
    finally:
        if keep_as is None:
            try:
                os.remove(path)
            except OSError:
                pass
    try:
        return json.loads(p.stdout.strip().splitlines()[-1])
    except Exception:     # noqa
        return {'error': 'no output: %s' % (p.stderr[-300:],)}


def frame_address(frame):
    df = frame.get('df') if isinstance(frame, dict) else None
    if isinstance(df, dict):
        if 'ADSB' in df:
            return ''.join('%02x' % b for b in df['ADSB']['icao']), df['ADSB']['me']
        if 'TisB' in df:
            return ''.join('%02x' % b for b in df['TisB']['cf']['aa']), df['TisB']['cf']['me']
    return None, None


def _me_kind(me):
    return me if isinstance(me, str) else (list(me.keys())[0] if isinstance(me, dict) and me else None)


def shift_stamps_for_prune(step):
    """prune() reads the real clock: keep every record's *age* as in the model (age = model clock reading for that
    record - stamp) by re-basing the stamps on the real time of the native run."""
    clock = step.get('model_clock') or []
    now = time.time() + 0.05
    for i, (key, st) in enumerate(step['pre']):
        lt = st.get('last_time')
        if lt is None or i >= len(clock):
            continue
        age_ns = (clock[i][0] - lt['secs_since_epoch']) * 10 ** 9 + (clock[i][1] - lt['nanos_since_epoch'])
        t_ns = int(now * 1e9) - age_ns
        st['last_time'] = {'secs_since_epoch': t_ns // 10 ** 9, 'nanos_since_epoch': t_ns % 10 ** 9}
        st['_age_ns'] = age_ns
    ages = {key: st.pop('_age_ns', None) for key, st in step['pre']}
    return ages


def judge(v):
    """-> (reproduced: True | False | None (not replayable), note)"""
    ok, note = _judge(v)
    if ok is False and (v.get('step') or {}).get('altered'):
        return None, note + ' (the replayed state differs from the model: %s)' % ', '.join(v['step']['altered'])
    return ok, note


def _judge(v):
    step = v.get('step')
    if step is None:
        return None, v.get('step_error', 'no serialisable step')
    role = v['role'].split(':')[-1] if ':' in v['role'] else v['role']
    role0 = v['role'].split(':')[0]
    step = json.loads(json.dumps(step))
    step.pop('altered', None)
    ages = None
    if step['op'] == 'prune':
        ages = shift_stamps_for_prune(step)
    t_before = time.time()
    nat = run_native(step)
    t_after = time.time()
    v['native'] = {k: nat.get(k) for k in ('panic', 'added', 'error', 'details', 'all_position')}
    if nat.get('error'):
        return None, 'native driver: ' + str(nat['error'])
    pre = {k: s for k, s in step['pre']}
    post = {k: s for k, s in (nat.get('post') or [])}
    if role0 in ('action-panics', 'prune-panics', 'aircraft_details-panics', 'all_position-panics') or role.endswith('-panics'):
        return bool(nat.get('panic')), 'native run %s' % ('panics' if nat.get('panic') else 'does not panic')
    if nat.get('panic'):
        return None, 'native run panics (a different violation: C01)'
    if step['op'] == 'action':
        addr, me = frame_address(step['frame'])
        if role == 'added-flag':
            want = 'Yes' if (addr is not None and addr not in pre) else 'No'
            return nat.get('added') != want, 'native added=%s, expected %s' % (nat.get('added'), want)
        if role == 'key-set':
            want = set(pre) | ({addr} if addr is not None else set())
            return set(post) != want, 'native key set %s, expected %s' % (sorted(post), sorted(want))
        if role == 'isolation':
            changed = [k for k in pre if k != addr and post.get(k) != pre[k]]
            return bool(changed), 'records of other aircraft changed natively: %s' % changed
        if role == 'message-count':
            if addr is None:
                return None, 'frame without address'
            want = (pre[addr]['num_messages'] + 1) if addr in pre else 1
            got = post.get(addr, {}).get('num_messages')
            return got != want, 'native num_messages=%s, expected %s' % (got, want)
        if role == 'callsign':
            if addr is None or addr not in post:
                return None, 'no record'
            want = me['AircraftIdentification']['cn'] if _me_kind(me) == 'AircraftIdentification' else (pre.get(addr) or {}).get('callsign')
            return post[addr].get('callsign') != want, 'native callsign=%r, expected %r' % (post[addr].get('callsign'), want)
        if role in ('squawk', 'on_ground'):
            want = (pre.get(addr) or {}).get(role)
            return post.get(addr, {}).get(role) != want, 'native %s=%r, expected unchanged %r' % (role, post.get(addr, {}).get(role), want)
        if role in ('heading', 'speed', 'vert_speed') and _me_kind(me) != 'AirborneVelocity':
            want = (pre.get(addr) or {}).get(role)
            return post.get(addr, {}).get(role) != want, 'native %s=%r, expected unchanged %r' % (role, post.get(addr, {}).get(role), want)
        if role == 'track' and _me_kind(me) not in ('AirbornePositionBaroAltitude', 'AirbornePositionGNSSAltitude'):
            want = (pre.get(addr) or {}).get('track')
            return post.get(addr, {}).get('track') != want, 'native track changed by a frame that is not a position report'
        if role == 'heard-stamp':
            lt = post.get(addr, {}).get('last_time')
            if lt is None:
                return None, 'no record / no stamp'
            t = lt['secs_since_epoch'] + lt['nanos_since_epoch'] / 1e9
            fresh = t_before - 0.01 <= t <= t_after + 0.01
            return not fresh, 'native stamp %.3f, run between %.3f and %.3f' % (t, t_before, t_after)
        if role == 'stamp-of-others':
            changed = [k for k in pre if k != addr and (post.get(k) or {}).get('last_time') != pre[k].get('last_time')]
            return bool(changed), 'native last-heard stamps of other aircraft changed: %s' % changed
        if role == 'distance-iff-position':
            co = post.get(addr, {}).get('coords') or {}
            return (co.get('position') is None) != (co.get('kilo_distance') is None), 'native position=%r distance=%r' % (co.get('position'), co.get('kilo_distance'))
        if role == 'slot-parity':
            alts = (post.get(addr, {}).get('coords') or {}).get('altitudes') or [None, None]
            bad = (alts[0] is not None and alts[0].get('odd_flag') != 'Even') or (alts[1] is not None and alts[1].get('odd_flag') != 'Odd')
            return bad, 'native slots: %s' % [a and a.get('odd_flag') for a in alts]
        return None, 'the expected value of role %s depends on libm / get_position results that are uninterpreted in the model' % role
    if step['op'] == 'prune':
        T = step['filter_time']
        bad = []
        for k in pre:
            age = ages.get(k)
            if age is None:
                continue
            age += int((t_after - t_before) * 0)       # ages were fixed relative to the run; the run itself takes < 50 ms
            alive = 0 <= age < T * 10 ** 9
            if abs(age - T * 10 ** 9) < 2 * 10 ** 8 or abs(age) < 2 * 10 ** 8:
                continue                                  # too close to the boundary to judge with a real clock
            if (k in post) != alive:
                bad.append((k, age / 1e9, k in post))
        if role in ('expiry-rule', 'survivor-untouched'):
            if role == 'survivor-untouched':
                changed = [k for k in post if post[k] != {kk: vv for kk, vv in step['pre']}.get(k)]
                return bool(changed) or any(k not in pre for k in post), 'native survivors changed: %s' % changed
            return bool(bad), 'native prune(%d): %s' % (T, bad or 'agrees with the rule away from the boundary')
        return None, 'role %s' % role
    if step['op'] == 'details':
        key = ''.join('%02x' % b for b in step['icao'])
        st = pre.get(key)
        have = nat.get('details') is not None
        if role == 'details-availability':
            co = (st or {}).get('coords') or {}
            alt0 = (co.get('altitudes') or [None, None])[0]
            want = st is not None and co.get('position') is not None and co.get('kilo_distance') is not None and alt0 is not None and alt0.get('alt') is not None
            return have != want, 'native details %s, expected %s' % ('present' if have else 'absent', 'present' if want else 'absent')
        if role == 'details-values' and have and st is not None:
            d = nat['details']
            co = st['coords']
            ok = (d['position'] == [co['position']['latitude'], co['position']['longitude']] and d['altitude'] == co['altitudes'][0]['alt']
                  and d['kilo_distance'] == co['kilo_distance'] and d['heading'] == st.get('heading')
                  and d['track_len'] == (len(st['track']) if st.get('track') is not None else None))
            return not ok, 'native details %r' % (d,)
        return None, 'role %s' % role
    if step['op'] == 'all_position':
        got = sorted(x[0] for x in nat.get('all_position') or [])
        want = sorted(k for k, s in pre.items() if (s.get('coords') or {}).get('position') is not None)
        return got != want, 'native list %s, expected %s' % (got, want)
    return None, 'op %s' % step['op']
