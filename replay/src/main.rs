//! Native replay / encoder-validation driver.  Reads one request per line on stdin, writes one JSON line per
//! request on stdout.  Every request runs under catch_unwind so that a panic is an observation, not a crash.
use std::io::{BufRead, Write};
use std::panic;

use adsb_deku::Frame;

fn esc(s: &str) -> String {
    let mut o = String::with_capacity(s.len() + 2);
    for c in s.chars() {
        match c {
            '"' => o.push_str("\\\""),
            '\\' => o.push_str("\\\\"),
            '\n' => o.push_str("\\n"),
            '\r' => o.push_str("\\r"),
            '\t' => o.push_str("\\t"),
            c if (c as u32) < 0x20 => o.push_str(&format!("\\u{:04x}", c as u32)),
            c => o.push(c),
        }
    }
    o
}

fn unhex(s: &str) -> Vec<u8> {
    let s = s.trim();
    (0..s.len() / 2).map(|i| u8::from_str_radix(&s[2 * i..2 * i + 2], 16).unwrap()).collect()
}

fn panic_msg(e: Box<dyn std::any::Any + Send>) -> String {
    if let Some(s) = e.downcast_ref::<&str>() {
        s.to_string()
    } else if let Some(s) = e.downcast_ref::<String>() {
        s.clone()
    } else {
        "<non-string panic>".to_string()
    }
}

fn decode(hex: &str) -> String {
    let bytes = unhex(hex);
    let r = panic::catch_unwind(|| match Frame::from_bytes(&bytes) {
        Ok(f) => {
            let dbg = format!("{f:?}");
            let disp = panic::catch_unwind(|| format!("{f}"));
            match disp {
                Ok(d) => format!(
                    "{{\"hex\":\"{}\",\"ok\":true,\"crc\":{},\"debug\":\"{}\",\"display\":\"{}\"}}",
                    hex,
                    f.crc,
                    esc(&dbg),
                    esc(&d)
                ),
                Err(e) => format!(
                    "{{\"hex\":\"{}\",\"ok\":true,\"crc\":{},\"debug\":\"{}\",\"display_panic\":\"{}\"}}",
                    hex,
                    f.crc,
                    esc(&dbg),
                    esc(&panic_msg(e))
                ),
            }
        }
        Err(e) => format!("{{\"hex\":\"{}\",\"ok\":false,\"err\":\"{}\"}}", hex, esc(&format!("{e:?}"))),
    });
    match r {
        Ok(s) => s,
        Err(e) => format!("{{\"hex\":\"{}\",\"panic\":\"{}\"}}", hex, esc(&panic_msg(e))),
    }
}

/// A reader that fragments reads / injects Interrupted according to a list of events keyed by stream position.
struct SchedReader {
    data: Vec<u8>,
    pos: u64,
    calls: u64,
    events: Vec<(char, u64, usize)>, // ('i', call index, _) | ('s', call index, n)
}

impl std::io::Read for SchedReader {
    fn read(&mut self, buf: &mut [u8]) -> std::io::Result<usize> {
        let start = (self.pos as usize).min(self.data.len());
        let full = buf.len().min(self.data.len() - start);
        let call = self.calls;
        self.calls += 1;
        if let Some(&(k, p, n)) = self.events.first() {
            if p == call {
                if k == 'i' && !buf.is_empty() {
                    self.events.remove(0);
                    return Err(std::io::Error::from(std::io::ErrorKind::Interrupted));
                }
                if k == 's' && full > 1 {
                    self.events.remove(0);
                    let n = n.min(full);
                    buf[..n].copy_from_slice(&self.data[start..start + n]);
                    self.pos += n as u64;
                    return Ok(n);
                }
            }
        }
        buf[..full].copy_from_slice(&self.data[start..start + full]);
        self.pos += full as u64;
        Ok(full)
    }
}

impl std::io::Seek for SchedReader {
    fn seek(&mut self, pos: std::io::SeekFrom) -> std::io::Result<u64> {
        let new = match pos {
            std::io::SeekFrom::Start(n) => n as i128,
            std::io::SeekFrom::End(o) => self.data.len() as i128 + o as i128,
            std::io::SeekFrom::Current(o) => self.pos as i128 + o as i128,
        };
        if new < 0 {
            return Err(std::io::Error::from(std::io::ErrorKind::InvalidInput));
        }
        self.pos = new as u64;
        Ok(self.pos)
    }
}

fn sched(rest: &str) -> String {
    let mut it = rest.split_whitespace();
    let hex = it.next().unwrap_or("");
    let ev = it.next().unwrap_or("-");
    let bytes = unhex(hex);
    let mut events = vec![];
    if ev != "-" {
        for e in ev.split(',') {
            let k = e.chars().next().unwrap();
            let body = &e[1..];
            if k == 'i' {
                events.push(('i', body.parse::<u64>().unwrap(), 0usize));
            } else {
                let (p, n) = body.split_once(':').unwrap();
                events.push(('s', p.parse::<u64>().unwrap(), n.parse::<usize>().unwrap()));
            }
        }
    }
    let b2 = bytes.clone();
    let r = panic::catch_unwind(move || {
        let a = Frame::from_bytes(&b2).map(|f| format!("{f:?}")).map_err(|e| format!("{e:?}"));
        let rd = SchedReader { data: b2.clone(), pos: 0, calls: 0, events };
        let b = Frame::from_reader(rd).map(|f| format!("{f:?}")).map_err(|e| format!("{e:?}"));
        (a, b)
    });
    match r {
        Ok((a, b)) => format!(
            "{{\"hex\":\"{}\",\"differs\":{},\"from_bytes\":\"{}\",\"from_reader\":\"{}\"}}",
            hex,
            a != b,
            esc(&format!("{a:?}")),
            esc(&format!("{b:?}"))
        ),
        Err(e) => format!("{{\"hex\":\"{}\",\"differs\":true,\"panic\":\"{}\"}}", hex, esc(&panic_msg(e))),
    }
}

fn cpr(rest: &str) -> String {
    // cpr <first: e|o> <lat> <lon> <second: e|o> <lat> <lon>
    let v: Vec<&str> = rest.split_whitespace().collect();
    if v.len() != 6 {
        return "{\"error\":\"usage\"}".to_string();
    }
    let mk = |p: &str, lat: &str, lon: &str| adsb_deku::Altitude {
        odd_flag: if p == "o" { adsb_deku::CPRFormat::Odd } else { adsb_deku::CPRFormat::Even },
        lat_cpr: lat.parse().unwrap(),
        lon_cpr: lon.parse().unwrap(),
        ..Default::default()
    };
    let a = mk(v[0], v[1], v[2]);
    let b = mk(v[3], v[4], v[5]);
    let r = panic::catch_unwind(|| adsb_deku::cpr::get_position((&a, &b)));
    match r {
        Ok(Some(p)) => format!("{{\"some\":true,\"lat\":{:?},\"lon\":{:?}}}", p.latitude, p.longitude),
        Ok(None) => "{\"some\":false}".to_string(),
        Err(e) => format!("{{\"panic\":\"{}\"}}", esc(&panic_msg(e))),
    }
}

fn main() {
    panic::set_hook(Box::new(|_| {}));
    let stdin = std::io::stdin();
    let stdout = std::io::stdout();
    let mut out = stdout.lock();
    for line in stdin.lock().lines() {
        let line = line.unwrap();
        let line = line.trim();
        if line.is_empty() {
            continue;
        }
        let (cmd, rest) = match line.split_once(' ') {
            Some((c, r)) => (c, r),
            None => (line, ""),
        };
        let resp = match cmd {
            "decode" => decode(rest),
            "sched" => sched(rest),
            "cpr" => cpr(rest),
            _ => format!("{{\"error\":\"unknown command {}\"}}", esc(cmd)),
        };
        writeln!(out, "{resp}").unwrap();
    }
}
