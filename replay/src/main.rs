//! Native replay / encoder-validation driver.  Reads one request per line on stdin, writes one JSON line per
//! request on stdout.  Every request runs under catch_unwind so that a panic is an observation, not a crash.
use std::io::{BufRead, Write};
use std::panic;

use adsb_deku::Frame;

fn esc(s: &str) -> String {
    let mut o = String::with_capacity(s.len() + 2);
    for c in s.chars() {
        match c {
            '"' => o.push_str("\\\""),
            '\\' => o.push_str("\\\\"),
            '\n' => o.push_str("\\n"),
            '\r' => o.push_str("\\r"),
            '\t' => o.push_str("\\t"),
            c if (c as u32) < 0x20 => o.push_str(&format!("\\u{:04x}", c as u32)),
            c => o.push(c),
        }
    }
    o
}

fn unhex(s: &str) -> Vec<u8> {
    let s = s.trim();
    (0..s.len() / 2).map(|i| u8::from_str_radix(&s[2 * i..2 * i + 2], 16).unwrap()).collect()
}

fn panic_msg(e: Box<dyn std::any::Any + Send>) -> String {
    if let Some(s) = e.downcast_ref::<&str>() {
        s.to_string()
    } else if let Some(s) = e.downcast_ref::<String>() {
        s.clone()
    } else {
        "<non-string panic>".to_string()
    }
}

fn decode(hex: &str) -> String {
    let bytes = unhex(hex);
    let r = panic::catch_unwind(|| match Frame::from_bytes(&bytes) {
        Ok(f) => {
            let dbg = format!("{f:?}");
            let disp = panic::catch_unwind(|| format!("{f}"));
            match disp {
                Ok(d) => format!(
                    "{{\"hex\":\"{}\",\"ok\":true,\"crc\":{},\"debug\":\"{}\",\"display\":\"{}\"}}",
                    hex,
                    f.crc,
                    esc(&dbg),
                    esc(&d)
                ),
                Err(e) => format!(
                    "{{\"hex\":\"{}\",\"ok\":true,\"crc\":{},\"debug\":\"{}\",\"display_panic\":\"{}\"}}",
                    hex,
                    f.crc,
                    esc(&dbg),
                    esc(&panic_msg(e))
                ),
            }
        }
        Err(e) => format!("{{\"hex\":\"{}\",\"ok\":false,\"err\":\"{}\"}}", hex, esc(&format!("{e:?}"))),
    });
    match r {
        Ok(s) => s,
        Err(e) => format!("{{\"hex\":\"{}\",\"panic\":\"{}\"}}", hex, esc(&panic_msg(e))),
    }
}

fn main() {
    panic::set_hook(Box::new(|_| {}));
    let stdin = std::io::stdin();
    let stdout = std::io::stdout();
    let mut out = stdout.lock();
    for line in stdin.lock().lines() {
        let line = line.unwrap();
        let line = line.trim();
        if line.is_empty() {
            continue;
        }
        let (cmd, rest) = match line.split_once(' ') {
            Some((c, r)) => (c, r),
            None => (line, ""),
        };
        let resp = match cmd {
            "decode" => decode(rest),
            _ => format!("{{\"error\":\"unknown command {}\"}}", esc(cmd)),
        };
        writeln!(out, "{resp}").unwrap();
    }
}
