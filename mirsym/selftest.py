"""Validation of the interpreter + builtin models against the real compiler/std (DESIGN §1.1 "validating the encoder").

/verif/selftest is a crate of small functions (u32, u32) -> u64 exercising the std/core API surface that mirsym
models with hand-written builtins (iterators, Option/Result combinators, integer methods, Vec/slice/String,
floats, mem::*).  For every function this script
  1. runs it natively (dev profile, overflow checks on) on a list of inputs,
  2. executes its MIR concretely in mirsym on the same inputs and compares (value or panic),
  3. executes its MIR once with both arguments symbolic and checks, for every input, that exactly one leaf's
     path condition holds under the input and that leaf's value (or panic) equals the native result.
Usage: python3-vt -m mirsym.selftest [name-substring]"""
import os
import random
import subprocess
import sys
import time

import z3

ROOT = os.path.dirname(os.path.dirname(os.path.abspath(__file__)))
sys.path.insert(0, ROOT)

from mirsym.execu import Program, Executor, ExecError     # noqa: E402
from mirsym.values import *                                # noqa: E402,F401
from mirsym import builtins as _b                          # noqa: E402
from mirsym import loader                                  # noqa: E402,F401  (registers all builtins)

CRATE = os.path.join(ROOT, 'selftest')
CACHE = os.environ.get('VERIF_CACHE', os.path.join(ROOT, '.cache'))


def inputs():
    rnd = random.Random(12345)
    fixed = [(0, 0), (1, 1), (0xffffffff, 0xffffffff), (0x12, 0x20000000), (1001, 6), (1002, 0x8000), (65535 + 1001, 2),
             (0x00ff0080, 0x03060920), (0x80000000, 0x7fffffff), (255, 256), (0x20202020, 0x20202020), (7, 0), (300, 3),
             (0x00000041, 0x00000003), (0x7f7f7f7f, 0x01010101), (0x000000ff, 0xff000000), (9, 1), (100, 4)]
    return fixed + [(rnd.getrandbits(32), rnd.getrandbits(32)) for _ in range(14)] + \
        [(rnd.getrandbits(8), rnd.getrandbits(8)) for _ in range(6)]


def native(ins):
    env = dict(os.environ, CARGO_TARGET_DIR=os.path.join(CACHE, 'target-selftest'), CARGO_NET_OFFLINE='true')
    p = subprocess.run(['cargo', 'build', '--offline', '--quiet'], cwd=CRATE, env=env, stdout=subprocess.PIPE, stderr=subprocess.STDOUT, text=True)
    if p.returncode != 0:
        raise RuntimeError('selftest build failed:\n' + p.stdout[-3000:])
    exe = os.path.join(CACHE, 'target-selftest', 'debug', 'selftest')
    out = subprocess.run([exe] + ['%d,%d' % i for i in ins], stdout=subprocess.PIPE, text=True).stdout
    res = {}
    for ln in out.splitlines():
        n, x, y, v = ln.split()
        res[(n, int(x), int(y))] = None if v == 'PANIC' else int(v)
    return res


def dump():
    env = dict(os.environ, CARGO_TARGET_DIR=os.path.join(CACHE, 'target-selftest-mir'), CARGO_NET_OFFLINE='true')
    cmd = ['cargo', '+nightly', 'rustc', '--offline', '--lib', '--', '-Zunpretty=mir', '-C', 'debug-assertions=off',
           '-C', 'overflow-checks=on', '--cfg', 'verif_nonce_n%d' % int(time.time() * 1000), '-A', 'unexpected_cfgs']
    p = subprocess.run(cmd, cwd=CRATE, env=env, stdout=subprocess.PIPE, stderr=subprocess.PIPE, text=True)
    if p.returncode != 0 or 'fn ' not in p.stdout:
        raise RuntimeError('selftest MIR dump failed:\n' + p.stderr[-3000:])
    return p.stdout


def leaf_result(l, model=None):
    if l.kind == 'panic':
        return None
    if l.kind != 'return':
        return 'error:%s' % l.msg
    v = l.value
    if not isinstance(v, Int):
        return 'non-int %r' % (v,)
    if v.concrete:
        return v.v
    if model is None:
        r = z3.simplify(v.v)
        return r.as_long() if z3.is_bv_value(r) else 'symbolic %s' % r
    return model.eval(v.v, model_completion=True).as_long()


def main(argv):
    pat = argv[1] if len(argv) > 1 else ''
    ins = inputs()
    nat = native(ins)
    prog = Program(CRATE)
    prog.add_mir(dump(), '.')
    names = sorted({k[0] for k in nat})
    bad = 0
    stats = []
    for n in names:
        if pat not in n:
            continue
        t = time.time()
        fn = prog.items.get(n) or prog.items[prog.find_free_fn(n)]
        fails = []
        # 2. concrete
        try:
            for (x, y) in ins:
                ex = Executor(prog, _b.B)
                ex.concrete_libm = True
                leaves = ex.run(fn, [Int('u32', x), Int('u32', y)])
                if len(leaves) != 1:
                    fails.append('concrete %d,%d: %d leaves' % (x, y, len(leaves)))
                    continue
                got = leaf_result(leaves[0])
                if got != nat[(n, x, y)]:
                    fails.append('concrete %d,%d: mirsym %r native %r (%s)' % (x, y, got, nat[(n, x, y)], leaves[0].msg))
        except Exception as e:     # noqa
            fails.append('concrete: %s %s' % (type(e).__name__, e))
        # 3. symbolic
        nleaves = 0
        try:
            ex = Executor(prog, _b.B)
            X, Y = z3.BitVec('x', 32), z3.BitVec('y', 32)
            leaves = ex.run(fn, [Int('u32', X), Int('u32', Y)])
            nleaves = len(leaves)
            from mirsym.execu import fp_definitions
            for (x, y) in ins:
                hit = []
                for l in leaves:
                    s = z3.Solver()
                    s.add(X == x, Y == y)
                    for c in l.pc:
                        s.add(c)
                    val = [l.value.v] if (l.kind == 'return' and isinstance(l.value, Int) and not l.value.concrete) else []
                    for d in fp_definitions(list(l.pc) + val):
                        s.add(d)
                    r = s.check()
                    if r == z3.sat:
                        hit.append((l, s.model()))
                    elif r != z3.unsat:
                        fails.append('symbolic %d,%d: solver unknown' % (x, y))
                if len(hit) != 1:
                    fails.append('symbolic %d,%d: %d leaves match' % (x, y, len(hit)))
                    continue
                got = leaf_result(*hit[0])
                if got != nat[(n, x, y)]:
                    fails.append('symbolic %d,%d: mirsym %r native %r (%s)' % (x, y, got, nat[(n, x, y)], hit[0][0].msg))
        except Exception as e:     # noqa
            fails.append('symbolic: %s %s' % (type(e).__name__, e))
        dt = time.time() - t
        stats.append((n, nleaves, len(fails), dt))
        print('%-32s %s  leaves=%d  %.1fs' % (n, 'ok' if not fails else 'FAIL', nleaves, dt))
        for f in fails[:4]:
            print('      ' + f[:300])
        bad += bool(fails)
    print('selftest: %d functions, %d failing, %d inputs each' % (len(stats), bad, len(ins)))
    return 1 if bad else 0


if __name__ == '__main__':
    sys.exit(main(sys.argv))
