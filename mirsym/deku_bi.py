"""Model of the deku 0.18.1 run time (reader.rs, impls/primitive.rs, bool.rs, slice.rs, vec.rs, tuple.rs) and of
the io layer underneath it (Cursor, default read_exact / read_to_end).  Trusted base, validated per explored
path against the real build (DESIGN §1.1, "Validating the encoder").

Bit sequences are (n, v): n bits, v a python int or a z3 BitVec of width n (first bit read = most significant).
"""
import z3

from .values import *   # noqa
from .execu import ExecError, PanicExc, Call, Choices, Panic, last_seg, type_key, int_cast, int_binop
from .builtins import B, mk_ok, mk_err, mk_some, NONE, concrete_usize, generic_args, deref_all

READ = '<R as std::io::Read>::read'
SEEK = '<R as std::io::Seek>::seek'

MAX_BITS_AMT = 128


# ------------------------------------------------------------------------------------ bit sequences
def bits_empty():
    return (0, 0)


def bits_from_bytes(bs):
    """bs: list of Int u8 -> (8n, v)"""
    n = 8 * len(bs)
    if all(b.concrete for b in bs):
        v = 0
        for b in bs:
            v = (v << 8) | (b.v & 0xff)
        return (n, v)
    parts = [to_bv(b) for b in bs]
    v = parts[0] if len(parts) == 1 else z3.Concat(*parts)
    return (n, v)


def bits_concat(a, b):
    if a[0] == 0:
        return b
    if b[0] == 0:
        return a
    n = a[0] + b[0]
    if isinstance(a[1], int) and isinstance(b[1], int):
        return (n, (a[1] << b[0]) | b[1])
    x = a[1] if not isinstance(a[1], int) else z3.BitVecVal(a[1], a[0])
    y = b[1] if not isinstance(b[1], int) else z3.BitVecVal(b[1], b[0])
    return (n, z3.Concat(x, y))


def bits_split(bs, k):
    """first k bits, remaining"""
    n, v = bs
    if k == 0:
        return (0, 0), bs
    if k == n:
        return bs, (0, 0)
    if isinstance(v, int):
        return (k, v >> (n - k)), (n - k, v & ((1 << (n - k)) - 1))
    return (k, z3.simplify(z3.Extract(n - 1, n - k, v))), (n - k, z3.simplify(z3.Extract(n - k - 1, 0, v)))


def bits_slice(bs, a, b):
    """bits a..b (0 = first) as (b-a, v)"""
    n, v = bs
    if isinstance(v, int):
        return (b - a, (v >> (n - b)) & ((1 << (b - a)) - 1))
    return (b - a, z3.simplify(z3.Extract(n - 1 - a, n - b, v)))


def bits_to_int(bs, ty, endian_le):
    """deku's DekuRead<(Endian, BitSize)>::read for unsigned ints (see primitive.rs ImplDekuReadBits)."""
    n, v = bs
    w, s = INT_TYPES[ty]
    if s:
        raise ExecError('signed deku reads are not modelled')
    if n > w:
        raise ExecError('bits_to_int: too many bits')
    if not endian_le:
        # big endian: plain unsigned value
        if isinstance(v, int):
            return Int(ty, v)
        return mk_int(ty, z3.ZeroExt(w - n, v) if w > n else v)
    # little endian, n >= 8: full bytes first, partial chunk (right aligned) last
    m, r = divmod(n, 8)
    if isinstance(v, int):
        val = 0
        for i in range(m):
            byte = (v >> (n - 8 * (i + 1))) & 0xff
            val |= byte << (8 * i)
        if r:
            val |= (v & ((1 << r) - 1)) << (8 * m)
        return Int(ty, val)
    parts = []          # most significant first for Concat
    if r:
        parts.append(z3.ZeroExt(8 - r, z3.Extract(r - 1, 0, v)))
    for i in range(m - 1, -1, -1):
        parts.append(z3.Extract(n - 8 * i - 1, n - 8 * (i + 1), v))
    val = parts[0] if len(parts) == 1 else z3.Concat(*parts)
    tot = 8 * (m + (1 if r else 0))
    if tot < w:
        val = z3.ZeroExt(w - tot, val)
    return mk_int(ty, val)


def bytes_to_int(bs, ty, endian_le):
    """from_le_bytes / from_be_bytes of a list of Int u8 (len <= size of ty), zero padded as deku does."""
    w, _ = INT_TYPES[ty]
    n = len(bs)
    if all(b.concrete for b in bs):
        val = 0
        if endian_le:
            for i, b in enumerate(bs):
                val |= (b.v & 0xff) << (8 * i)
        else:
            for b in bs:
                val = (val << 8) | (b.v & 0xff)
        return Int(ty, val)
    parts = [to_bv(b) for b in (reversed(bs) if endian_le else bs)]
    val = parts[0] if len(parts) == 1 else z3.Concat(*parts)
    if 8 * n < w:
        val = z3.ZeroExt(w - 8 * n, val)
    return mk_int(ty, val)


# ------------------------------------------------------------------------------------ errors
def io_error(kind):
    return Struct('IoError', (Enum('ErrorKind', kind, ()),))


def incomplete(bits):
    return Enum('DekuError', 'Incomplete', (Struct('NeedSize', (Int('usize', bits),)),))


def parse_err(msg):
    return Enum('DekuError', 'Parse', (Opaque('string', msg),))


@B.path('io::Error::kind', 'Error::kind')
def io_error_kind(ex, st, info, args):
    e = deref_all(ex, st, args[0])
    return e.f[0]


@B.path('NeedSize::new')
def needsize_new(ex, st, info, args):
    return Struct('NeedSize', (args[0],))


# ------------------------------------------------------------------------------------ Cursor
@B.path('Cursor::new')
def cursor_new(ex, st, info, args):
    return Struct('Cursor', (args[0], Int('u64', 0)))


def cursor_read(ex, st, info, args):
    cref, bref = args
    cur = ex.read_ref(st, cref)
    data = ex.elems_of(ex.read_ref(st, cur.f[0]))
    buf = ex.read_ref(st, bref)
    pos = concrete_usize(cur.f[1], 'cursor position')
    start = min(pos, len(data))
    n = min(len(buf.e), len(data) - start)
    if n:
        ex.write_ref(st, bref, type(buf)(tuple(data[start:start + n]) + tuple(buf.e[n:])))
    ex.write_ref(st, cref, Struct('Cursor', (cur.f[0], Int('u64', pos + n))))
    return mk_ok(Int('usize', n))


def cursor_seek(ex, st, info, args):
    cref, pos = args
    cur = ex.read_ref(st, cref)
    data = ex.elems_of(ex.read_ref(st, cur.f[0]))
    if pos.variant == 'Start':
        new = concrete_usize(pos.f[0])
    else:
        base = len(data) if pos.variant == 'End' else concrete_usize(cur.f[1])
        off = pos.f[0]
        if not off.concrete:
            raise ExecError('symbolic seek offset')
        new = base + off.v
        if new < 0 or new >= (1 << 64):
            return mk_err(io_error('InvalidInput'))
    ex.write_ref(st, cref, Struct('Cursor', (cur.f[0], Int('u64', new))))
    return mk_ok(Int('u64', new))


B.dyn[('Read', 'read', 'Cursor')] = cursor_read
B.dyn[('Seek', 'seek', 'Cursor')] = cursor_seek


@B.trait('Read', 'read', lambda info: type_key(info['selfty']) == 'Cursor')
def cursor_read_static(ex, st, info, args):
    return cursor_read(ex, st, info, args)


@B.trait('Seek', 'seek', lambda info: type_key(info['selfty']) == 'Cursor')
def cursor_seek_static(ex, st, info, args):
    return cursor_seek(ex, st, info, args)


# ------------------------------------------------------------------------------------ default Read methods
def read_exact(ex, st, inner_ref, n, k):
    """std / no_std_io default Read::read_exact over dynamic `read`.  k(st, ('ok', [Int u8]*n) | ('err', IoError))"""
    if n == 0:
        return k(st, ('ok', []))
    cell = st.new_cell(Arr([Int('u8', 0)] * n))

    def attempt(st2, filled):
        bufref = Ref(('C', cell), (('range', filled, n),), True)

        def after(st3, res):
            if res.variant == 'Ok':
                got = concrete_usize(res.f[0], 'read() result')
                if got == 0:
                    del st3.cells[cell]
                    return k(st3, ('err', io_error('UnexpectedEof')))
                f2 = filled + got
                if f2 > n:
                    raise PanicExc('read() returned more than the buffer length')
                if f2 == n:
                    data = list(st3.cells[cell].e)
                    del st3.cells[cell]
                    return k(st3, ('ok', data))
                return attempt(st3, f2)
            err = res.f[0]
            if err.f[0].variant == 'Interrupted':
                return attempt(st3, filled)
            del st3.cells[cell]
            return k(st3, ('err', err))
        return Call(READ, [inner_ref, bufref], after)
    return attempt(st, 0)


@B.trait('Read', 'read_exact')
def read_exact_bi(ex, st, info, args):
    inner, bref = args
    buf = ex.read_ref(st, bref)
    n = len(buf.e)

    def done(st2, r):
        if r[0] == 'ok':
            ex.write_ref(st2, bref, type(buf)(r[1]))
            return mk_ok(UNIT)
        return mk_err(r[1])
    return read_exact(ex, st, inner, n, done)


PROBE = 32


@B.trait('Read', 'read_to_end')
def read_to_end_bi(ex, st, info, args):
    """Default read_to_end: read until Ok(0), retrying on Interrupted, appending to the Vec.  The chunking of the
    real implementation (probe reads, adaptive sizes) is abstracted to fixed 32-byte reads: only the sequence of
    *results* of read() is observable to the wrapped reader's cache logic."""
    inner, vref = args
    cell = st.new_cell(Arr([Int('u8', 0)] * PROBE))
    bufref = Ref(('C', cell), (), True)

    def attempt(st2, total):
        def after(st3, res):
            if res.variant == 'Ok':
                got = concrete_usize(res.f[0], 'read() result')
                if got == 0:
                    del st3.cells[cell]
                    return mk_ok(Int('usize', total))
                data = st3.cells[cell].e[:got]
                v = ex.read_ref(st3, vref)
                ex.builtins_alloc(st3, got)
                ex.write_ref(st3, vref, Vec(v.e + tuple(data)))
                if total + got > 1 << 20:
                    raise PanicExc('read_to_end: unbounded input')
                return attempt(st3, total + got)
            err = res.f[0]
            if err.f[0].variant == 'Interrupted':
                return attempt(st3, total)
            del st3.cells[cell]
            return mk_err(err)
        return Call(READ, [inner, bufref], after)
    return attempt(st, 0)


# ------------------------------------------------------------------------------------ Reader
def mk_reader(inner, leftover, last, bits_read):
    return Struct('Reader', (inner, Opaque('leftover', leftover), last, bits_read))


@B.path('Reader::new')
def reader_new(ex, st, info, args):
    return mk_reader(args[0], None, Int('usize', 0), Int('usize', 0))


def usize_add(a, k):
    v = a.v + k
    if v >= (1 << 64) or v < 0:
        raise PanicExc('attempt to add/subtract with overflow (deku Reader counters)')
    return Int('usize', v)


def reader_read_bits(ex, st, rref, amt, k):
    """k(st, ('ok', bits or None) | ('err', DekuError))"""
    if amt == 0:
        return k(st, ('ok', None))
    rd = ex.read_ref(st, rref)
    inner, lo, last, total = rd.f
    left = lo.p
    if left is not None and left[0] == 'byte':
        left = ('bits', bits_from_bytes([left[1]]))
    prev = left[1] if left is not None else (0, 0)
    prev_len = prev[0]

    def finish(st2, ret, new_left):
        rd2 = ex.read_ref(st2, rref)
        n = ret[0]
        ex.write_ref(st2, rref, mk_reader(rd2.f[0], new_left, usize_add(rd2.f[2], n), usize_add(rd2.f[3], n)))
        return k(st2, ('ok', ret))
    if amt == prev_len:
        return finish(st, prev, None)
    if amt < prev_len:
        ret, rest = bits_split(prev, amt)
        return finish(st, ret, ('bits', rest))
    bits_left = amt - prev_len
    nbytes = (bits_left + 7) // 8
    if nbytes > MAX_BITS_AMT:
        return Panic('read_bits: range end index out of range for slice of length 128')

    def got(st2, r):
        if r[0] == 'err':
            kind = r[1].f[0]
            if kind.variant == 'UnexpectedEof':
                return k(st2, ('err', incomplete(amt)))
            return k(st2, ('err', Enum('DekuError', 'Io', (kind,))))
        fresh = bits_from_bytes(r[1])
        need, not_needed = bits_split(fresh, bits_left)
        return finish(st2, bits_concat(prev, need), ('bits', not_needed))
    return read_exact(ex, st, inner, nbytes, got)


def reader_read_bytes(ex, st, rref, amt, bufsize, k):
    """Reader::read_bytes / read_bytes_const.  k(st, ('bytes', [Int]) | ('bits', bits or None) | ('err', e))"""
    rd = ex.read_ref(st, rref)
    inner, lo, last, total = rd.f
    if lo.p is None:
        if amt > bufsize:
            return Panic('range end index %d out of range for slice of length %d' % (amt, bufsize))

        def got(st2, r):
            if r[0] == 'err':
                kind = r[1].f[0]
                if kind.variant == 'UnexpectedEof':
                    return k(st2, ('err', incomplete(amt * 8)))
                return k(st2, ('err', Enum('DekuError', 'Io', (kind,))))
            rd2 = ex.read_ref(st2, rref)
            ex.write_ref(st2, rref, mk_reader(rd2.f[0], None, usize_add(rd2.f[2], amt * 8), usize_add(rd2.f[3], amt * 8)))
            return k(st2, ('bytes', r[1]))
        return read_exact(ex, st, inner, amt, got)
    if lo.p[0] == 'byte':
        raise ExecError('Leftover::Byte (Reader::end) is not modelled')

    def gotbits(st2, r):
        if r[0] == 'err':
            return k(st2, r)
        return k(st2, ('bits', r[1]))
    return reader_read_bits(ex, st, rref, amt * 8, gotbits)


@B.path('Reader::read_bits')
def reader_read_bits_bi(ex, st, info, args):
    amt = concrete_usize(args[1], 'read_bits amount')

    def k(st2, r):
        if r[0] == 'err':
            return mk_err(r[1])
        if r[1] is None:
            return mk_ok(NONE)
        return mk_ok(mk_some(Opaque('bitvec', r[1])))
    return reader_read_bits(ex, st, args[0], amt, k)


@B.path('Reader::skip_bits')
def reader_skip_bits_bi(ex, st, info, args):
    amt = concrete_usize(args[1], 'skip_bits amount')

    def k(st2, r):
        if r[0] == 'err':
            return mk_err(r[1])
        return mk_ok(UNIT)
    return reader_read_bits(ex, st, args[0], amt, k)


@B.path('Reader::read_bytes')
def reader_read_bytes_bi(ex, st, info, args):
    rref, amt, bref = args
    amt = concrete_usize(amt, 'read_bytes amount')
    buf = ex.read_ref(st, bref)

    def k(st2, r):
        if r[0] == 'err':
            return mk_err(r[1])
        if r[0] == 'bytes':
            b2 = ex.read_ref(st2, bref)
            ex.write_ref(st2, bref, type(b2)(tuple(r[1]) + tuple(b2.e[amt:])))
            return mk_ok(Enum('ReaderRet', 'Bytes', ()))
        bits = r[1]
        return mk_ok(Enum('ReaderRet', 'Bits', (NONE if bits is None else mk_some(Opaque('bitvec', bits)),)))
    return reader_read_bytes(ex, st, rref, amt, len(buf.e), k)


@B.path('Reader::seek_last_read')
def reader_seek_last_read(ex, st, info, args):
    rref = args[0]
    rd = ex.read_ref(st, rref)
    inner, lo, last, total = rd.f
    number = concrete_usize(last)
    seek_amt = number // 8 + (1 if number % 8 else 0)
    pos = Enum('SeekFrom', 'Current', (Int('i64', -seek_amt),))
    # Reader::seek clears the leftover first
    ex.write_ref(st, rref, mk_reader(inner, None, last, total))

    def after(st2, res):
        if res.variant == 'Err':
            return mk_err(res.f[0])
        rd2 = ex.read_ref(st2, rref)
        nt = rd2.f[3].v - rd2.f[2].v
        if nt < 0:
            return Panic('attempt to subtract with overflow (Reader::seek_last_read)')
        ex.write_ref(st2, rref, mk_reader(rd2.f[0], None, rd2.f[2], Int('usize', nt)))
        return mk_ok(UNIT)
    return Call(SEEK, [inner, pos], after)


@B.path('Reader::end')
def reader_end(ex, st, info, args):
    raise ExecError('Reader::end is not modelled')


@B.path('Limit::new_count')
def limit_new_count(ex, st, info, args):
    return Struct('LimitCount', (args[0],))


# ------------------------------------------------------------------------------------ DekuReader for primitives
def _ctx_parse(ctx):
    """-> (endian_le or None, ('bits', n) | ('bytes', n) | None)"""
    endian = None
    size = None
    items = ctx.f if isinstance(ctx, Tup) else (ctx,)
    for it in items:
        if isinstance(it, Enum) and it.ty == 'Endian':
            endian = (it.variant == 'Little')
        elif isinstance(it, Struct) and it.ty == 'BitSize':
            size = ('bits', concrete_usize(it.f[0]))
        elif isinstance(it, Struct) and it.ty == 'ByteSize':
            size = ('bytes', concrete_usize(it.f[0]))
        elif isinstance(it, Tup) and not it.f:
            pass
        else:
            raise ExecError('unknown deku ctx item %r' % (it,))
    return endian, size


def read_uint(ex, st, rref, ty, ctx, k):
    """k(st, ('ok', Int) | ('err', e))"""
    w, s = INT_TYPES[ty]
    nbytes_ty = w // 8
    endian, size = _ctx_parse(ctx)
    if endian is None:
        endian = True          # Endian::default() on the (little endian) target
    if size is not None and size[0] == 'bits' and size[1] % 8 == 0 and not (isinstance(ctx, Tup) and ctx.f):
        # DekuReader<BitSize>: multiples of 8 go through the ByteSize implementation
        size = ('bytes', size[1] // 8)
    if size is None:
        # DekuReader<Endian> / <()> : read_bytes_const::<size_of>
        def got(st2, r):
            if r[0] == 'err':
                return k(st2, r)
            if r[0] == 'bytes':
                return k(st2, ('ok', bytes_to_int(r[1], ty, endian)))
            if r[1] is None:
                return k(st2, ('err', parse_err('no bits read from reader')))
            return k(st2, ('ok', bits_to_int(r[1], ty, endian)))
        return reader_read_bytes(ex, st, rref, nbytes_ty, nbytes_ty, got)
    if size[0] == 'bytes':
        n = size[1]
        if ty == 'u8':
            # u8 specialisation: (Endian, ByteSize) ignores the size and reads one byte
            n = 1
        elif n > nbytes_ty:
            return k(st, ('err', parse_err('too much data')))

        def got2(st2, r):
            if r[0] == 'err':
                return k(st2, r)
            if r[0] == 'bytes':
                return k(st2, ('ok', bytes_to_int(r[1], ty, endian)))
            if r[1] is None:
                return k(st2, ('err', parse_err('no bits read from reader')))
            return k(st2, ('ok', bits_to_int(r[1], ty, endian)))
        return reader_read_bytes(ex, st, rref, n, nbytes_ty, got2)
    n = size[1]
    if n > w:
        return k(st, ('err', parse_err('too much data')))

    def got3(st2, r):
        if r[0] == 'err':
            return k(st2, r)
        if r[1] is None:
            return k(st2, ('err', parse_err('no bits read from reader')))
        return k(st2, ('ok', bits_to_int(r[1], ty, endian)))
    return reader_read_bits(ex, st, rref, n, got3)


def _res(r):
    return mk_ok(r[1]) if r[0] == 'ok' else mk_err(r[1])


def read_value(ex, st, rref, ty, ctx, k):
    """DekuReader::from_reader_with_ctx for a type given by its text; k(st, ('ok', v)|('err', e))."""
    ty = ty.strip()
    if ty in INT_TYPES:
        return read_uint(ex, st, rref, ty, ctx, k)
    if ty == 'bool':
        def gotb(st2, r):
            if r[0] == 'err':
                return k(st2, r)
            v = r[1]
            if v.concrete:
                if v.v in (0, 1):
                    return k(st2, ('ok', v.v == 1))
                return k(st2, ('err', parse_err('cannot parse bool value')))
            endian, size = _ctx_parse(ctx)
            if size == ('bits', 1):
                return k(st2, ('ok', mk_bool(v.v == z3.BitVecVal(1, 8))))
            isb = z3.ULE(v.v, z3.BitVecVal(1, 8))
            return Choices([(isb, lambda st3: k(st3, ('ok', mk_bool(v.v == z3.BitVecVal(1, 8))))),
                            (z3.Not(isb), lambda st3: k(st3, ('err', parse_err('cannot parse bool value'))))])
        return read_uint(ex, st, rref, 'u8', ctx, gotb)
    if ty.startswith('['):
        import re
        m = re.match(r'^\[(.*); (\d+)\]$', ty)
        if not m:
            raise ExecError('bad array type ' + ty)
        inner, n = m.group(1), int(m.group(2))

        def loop(st2, acc):
            if len(acc) == n:
                return k(st2, ('ok', Arr(acc)))
            return read_value(ex, st2, rref, inner, ctx,
                              lambda st3, r: k(st3, r) if r[0] == 'err' else loop(st3, acc + (r[1],)))
        return loop(st, ())
    if ty.startswith('('):
        from .mirparse import split_top
        parts = split_top(ty[1:-1])

        def loopt(st2, acc):
            if len(acc) == len(parts):
                return k(st2, ('ok', Tup(acc)))
            return read_value(ex, st2, rref, parts[len(acc)], ctx,
                              lambda st3, r: k(st3, r) if r[0] == 'err' else loopt(st3, acc + (r[1],)))
        return loopt(st, ())
    if type_key(ty) == 'Vec':
        from .builtins import self_generic_args
        inner = self_generic_args(ty)[0]
        lim, ictx = ctx.f
        if not (isinstance(lim, Struct) and lim.ty == 'LimitCount'):
            raise ExecError('only Limit::Count is modelled for Vec reads')
        n = concrete_usize(lim.f[0])

        def loopv(st2, acc):
            if len(acc) == n:
                ex.builtins_alloc(st2, n)
                return k(st2, ('ok', Vec(acc)))
            return read_value(ex, st2, rref, inner, ictx,
                              lambda st3, r: k(st3, r) if r[0] == 'err' else loopv(st3, acc + (r[1],)))
        return loopv(st, ())
    # user type implemented in MIR
    name = ex.prog.find_method(type_key(ty), 'DekuReader', 'from_reader_with_ctx')
    if name is None:
        raise ExecError('no DekuReader for ' + ty)

    def back(st2, res):
        return k(st2, ('ok', res.f[0]) if res.variant == 'Ok' else ('err', res.f[0]))
    return Call(ex.prog.items[name], [rref, ctx], back)


def _is_deku_prim(info):
    t = info['selfty'].strip()
    return (t in INT_TYPES or t == 'bool' or t.startswith('[') or t.startswith('(') or type_key(t) == 'Vec')


@B.trait('DekuReader', 'from_reader_with_ctx', _is_deku_prim)
def deku_from_reader_with_ctx(ex, st, info, args):
    rref, ctx = args
    return read_value(ex, st, rref, info['selfty'], ctx, lambda st2, r: _res(r))


# ------------------------------------------------------------------------------------ scheduled reader (C19)
def sched_cursor(data_ref, shorts, intrs):
    """A Read+Seek over a byte buffer that may return short reads and transient Interrupted errors:
    (data, pos, remaining short-read budget, remaining interrupt budget)"""
    return Struct('SchedCursor', (data_ref, Int('u64', 0), Opaque('budget', shorts), Opaque('budget', intrs)))


def sched_read(ex, st, info, args):
    cref, bref = args
    cur = ex.read_ref(st, cref)
    data = ex.elems_of(ex.read_ref(st, cur.f[0]))
    buf = ex.read_ref(st, bref)
    pos = concrete_usize(cur.f[1], 'cursor position')
    shorts, intrs = cur.f[2].p, cur.f[3].p
    start = min(pos, len(data))
    full = min(len(buf.e), len(data) - start)
    call = st.env.get('sched_calls', 0)
    st.env['sched_calls'] = call + 1

    def do_read(n, sh, it):
        def th(st2):
            c2 = ex.read_ref(st2, cref)
            b2 = ex.read_ref(st2, bref)
            if n:
                ex.write_ref(st2, bref, type(b2)(tuple(data[start:start + n]) + tuple(b2.e[n:])))
            ex.write_ref(st2, cref, Struct('SchedCursor', (c2.f[0], Int('u64', pos + n), Opaque('budget', sh), Opaque('budget', it))))
            ev = st2.env.get('sched_events', ())
            if n != full:
                st2.env['sched_events'] = ev + (('short', call, n, full),)
            return mk_ok(Int('usize', n))
        return th

    def do_intr(st2):
        c2 = ex.read_ref(st2, cref)
        ex.write_ref(st2, cref, Struct('SchedCursor', (c2.f[0], c2.f[1], c2.f[2], Opaque('budget', intrs - 1))))
        st2.env['sched_events'] = st2.env.get('sched_events', ()) + (('interrupted', call, len(buf.e)),)
        return mk_err(io_error('Interrupted'))
    alts = [(True, do_read(full, shorts, intrs))]
    if shorts > 0 and full > 1:
        for n in range(1, full):
            alts.append((True, do_read(n, shorts - 1, intrs)))
    if intrs > 0 and len(buf.e) > 0:
        alts.append((True, do_intr))
    if len(alts) == 1:
        return alts[0][1](st)
    return Choices(alts)


def sched_seek(ex, st, info, args):
    cref, pos = args
    cur = ex.read_ref(st, cref)
    data = ex.elems_of(ex.read_ref(st, cur.f[0]))
    if pos.variant == 'Start':
        new = concrete_usize(pos.f[0])
    else:
        base = len(data) if pos.variant == 'End' else concrete_usize(cur.f[1])
        new = base + pos.f[0].v
        if new < 0:
            return mk_err(io_error('InvalidInput'))
    ex.write_ref(st, cref, Struct('SchedCursor', (cur.f[0], Int('u64', new), cur.f[2], cur.f[3])))
    return mk_ok(Int('u64', new))


B.dyn[('Read', 'read', 'SchedCursor')] = sched_read
B.dyn[('Seek', 'seek', 'SchedCursor')] = sched_seek
