"""Further core/alloc builtins (trusted base, DESIGN §1.1): operator traits on references, comparisons, integer
methods, Option/Result/mem helpers, slice/Vec/String methods.  Every model here is exercised against the real
std by `python3-vt -m mirsym.selftest`."""
import z3

from .values import *   # noqa
from .execu import ExecError, Call, Choices, Panic, int_binop, int_cast, type_key, flt_binop
from . import builtins as _bi
from .builtins import (B, NONE, mk_some, mk_ok, mk_err, call_fn, deref_all, iter_next, generic_args, concrete_usize,
                       eq_values, _int_method, string_chars)
from .iter_bi import branch, on_option, drive, item_value


def _is_prim(info):
    t = info['selfty'].lstrip('&').replace('mut ', '').strip()
    return t in INT_TYPES or t in FLOAT_TYPES or t == 'bool'


def _val(ex, st, v):
    while isinstance(v, Ref):
        v = ex.read_ref(st, v)
    return v


# ------------------------------------------------------------------------------------------ operator traits
def _checked_int(op, a, b, what):
    """a op b with Rust's overflow / zero-divisor panics -> value | Panic | Choices"""
    if op in ('Add', 'Sub', 'Mul'):
        r, ov = int_binop(op + 'WithOverflow', a, b).f
        msg = 'attempt to %s with overflow' % what
        if isinstance(ov, bool):
            return Panic(msg) if ov else r
        return Choices([(ov, lambda s: Panic(msg)), (z3.Not(ov), lambda s: r)])
    if op in ('Div', 'Rem'):
        w, sg = INT_TYPES[a.ty]
        zero = int_binop('Eq', b, Int(b.ty, 0))
        msg0 = 'attempt to divide by zero' if op == 'Div' else 'attempt to calculate the remainder with a divisor of zero'
        alts = []
        bad = zero
        if sg:
            ovf = b_and(int_binop('Eq', b, Int(b.ty, -1)), int_binop('Eq', a, Int(a.ty, -(1 << (w - 1)))))
        else:
            ovf = False
        if zero is True:
            return Panic(msg0)
        if ovf is True:
            return Panic('attempt to %s with overflow' % what)
        if zero is False and ovf is False:
            return int_binop(op, a, b)
        conds = []
        if zero is not False:
            conds.append((to_z3bool(zero), lambda s: Panic(msg0)))
        if ovf is not False:
            conds.append((to_z3bool(ovf), lambda s: Panic('attempt to %s with overflow' % what)))
        ok = z3.Not(z3.Or(*[c for c, _ in conds]))
        # evaluate the quotient only under the guard (z3 semantics of x/0 are irrelevant there)
        conds.append((ok, lambda s: int_binop(op, a, b)))
        return Choices(conds)
    if op in ('Shl', 'Shr'):
        w, _ = INT_TYPES[a.ty]
        wb, sb = INT_TYPES[b.ty]
        big = int_binop('Ge', b, Int(b.ty, w)) if wb > 6 or w < 64 else False
        neg = int_binop('Lt', b, Int(b.ty, 0)) if sb else False
        bad = b_or(big, neg)
        msg = 'attempt to shift %s with overflow' % ('left' if op == 'Shl' else 'right')
        if bad is True:
            return Panic(msg)
        if bad is False:
            return int_binop(op, a, b)
        return Choices([(to_z3bool(bad), lambda s: Panic(msg)), (z3.Not(to_z3bool(bad)), lambda s: int_binop(op, a, b))])
    return int_binop(op, a, b)


def b_and(a, b):
    if a is False or b is False:
        return False
    if a is True:
        return b
    if b is True:
        return a
    return mk_bool(z3.And(to_z3bool(a), to_z3bool(b)))


def b_or(a, b):
    if a is True or b is True:
        return True
    if a is False:
        return b
    if b is False:
        return a
    return mk_bool(z3.Or(to_z3bool(a), to_z3bool(b)))


def _binop_trait(trait, method, op, what):
    def f(ex, st, info, args):
        a, b = _val(ex, st, args[0]), _val(ex, st, args[1])
        if isinstance(a, Int) and isinstance(b, Int):
            return _checked_int(op, a, b, what)
        if isinstance(a, Flt) and isinstance(b, Flt):
            return flt_binop(op, a, b)
        if isinstance(a, bool) or is_boolish(a):
            x, y = mk_bool(a), mk_bool(b)
            if op == 'BitAnd':
                return b_and(x, y)
            if op == 'BitOr':
                return b_or(x, y)
            if op == 'BitXor':
                if isinstance(x, bool) and isinstance(y, bool):
                    return x != y
                return mk_bool(z3.Xor(to_z3bool(x), to_z3bool(y)))
        raise ExecError('%s::%s on %r, %r' % (trait, method, a, b))
    B.traits.setdefault((trait, method), []).append((_is_prim, f))

    def g(ex, st, info, args):
        r = args[0]
        a, b = _val(ex, st, r), _val(ex, st, args[1])
        if isinstance(a, Int):
            v = _checked_int(op, a, b, what)
        elif isinstance(a, Flt):
            v = flt_binop(op, a, b)
        else:
            raise ExecError('%sAssign on %r' % (trait, a))
        if isinstance(v, Choices):
            return Choices([(c, (lambda s, th=th: _assign(ex, s, r, th(s)))) for c, th in v.alts])
        return _assign(ex, st, r, v)
    B.traits.setdefault((trait + 'Assign', method + '_assign'), []).append((_is_prim, g))


def _assign(ex, st, r, v):
    if isinstance(v, Panic):
        return v
    ex.write_ref(st, r, v)
    return UNIT


from .execu import is_boolish     # noqa: E402

for _t, _m, _op, _w in (('Add', 'add', 'Add', 'add'), ('Sub', 'sub', 'Sub', 'subtract'), ('Mul', 'mul', 'Mul', 'multiply'),
                        ('Div', 'div', 'Div', 'divide'), ('Rem', 'rem', 'Rem', 'calculate the remainder'),
                        ('BitXor', 'bitxor', 'BitXor', ''), ('BitAnd', 'bitand', 'BitAnd', ''), ('BitOr', 'bitor', 'BitOr', ''),
                        ('Shl', 'shl', 'Shl', ''), ('Shr', 'shr', 'Shr', '')):
    _binop_trait(_t, _m, _op, _w)


def _neg(ex, st, info, args):
    a = _val(ex, st, args[0])
    if isinstance(a, Flt):
        return Flt(a.ty, z3.fpNeg(to_fp(a))) if not a.concrete else mk_flt(a.ty, -a.v)
    return _checked_int('Sub', Int(a.ty, 0), a, 'negate')


def _not(ex, st, info, args):
    a = _val(ex, st, args[0])
    if isinstance(a, Int):
        if a.concrete:
            w, sg = INT_TYPES[a.ty]
            return mk_int(a.ty, ~a.v if sg else (~a.v) & ((1 << w) - 1))
        return mk_int(a.ty, ~a.v)
    a = mk_bool(a)
    return (not a) if isinstance(a, bool) else mk_bool(z3.Not(to_z3bool(a)))


B.traits.setdefault(('Neg', 'neg'), []).append((_is_prim, _neg))
B.traits.setdefault(('Not', 'not'), []).append((_is_prim, _not))


# ------------------------------------------------------------------------------------------ comparisons
def ordering_of(lt, eq):
    if isinstance(lt, bool) and isinstance(eq, bool):
        return Enum('Ordering', 'Less' if lt else ('Equal' if eq else 'Greater'), ())
    d = z3.If(to_z3bool(lt), z3.BitVecVal(-1, 64), z3.If(to_z3bool(eq), z3.BitVecVal(0, 64), z3.BitVecVal(1, 64)))
    return Enum('Ordering', None, (), discr=d)


def lt_eq(ex, st, a, b):
    """(lt, eq) boolish for ints / bools / chars / tuples / arrays (lexicographic); None if unordered types."""
    a, b = _val(ex, st, a), _val(ex, st, b)
    if isinstance(a, Int) and isinstance(b, Int):
        return int_binop('Lt', a, b), int_binop('Eq', a, b)
    if isinstance(a, (Tup, Arr, Vec)) and isinstance(b, type(a)):
        ea = a.f if isinstance(a, Tup) else a.e
        eb = b.f if isinstance(b, Tup) else b.e
        lt, eq = False, True
        for x, y in zip(ea, eb):
            r = lt_eq(ex, st, x, y)
            if r is None:
                return None
            l2, e2 = r
            lt = b_or(lt, b_and(eq, l2))
            eq = b_and(eq, e2)
        if len(ea) != len(eb):
            lt = b_or(lt, b_and(eq, len(ea) < len(eb)))
            eq = False
        return lt, eq
    if is_boolish(a) and is_boolish(b):
        x, y = mk_bool(a), mk_bool(b)
        nx = (not x) if isinstance(x, bool) else mk_bool(z3.Not(to_z3bool(x)))
        eqv = (x == y) if (isinstance(x, bool) and isinstance(y, bool)) else mk_bool(to_z3bool(x) == to_z3bool(y))
        return b_and(nx, y), eqv
    if isinstance(a, Enum) and isinstance(b, Enum) and a.ty == b.ty and not a.f and not b.f:
        da, db = enum_discr_bv(a), enum_discr_bv(b)
        if da is not None and db is not None:
            return mk_bool(da < db), mk_bool(da == db)
    return None


def _ord_pred(info):
    t = info['selfty'].lstrip('&').replace('mut ', '').strip()
    return t in INT_TYPES or t == 'bool' or t.startswith('(') or t.startswith('[')


def _cmp(ex, st, info, args):
    r = lt_eq(ex, st, args[0], args[1])
    if r is None:
        raise ExecError('Ord::cmp on %r' % (args[0],))
    return ordering_of(*r)


def _partial_cmp(ex, st, info, args):
    a, b = _val(ex, st, args[0]), _val(ex, st, args[1])
    if isinstance(a, Flt):
        raise ExecError('partial_cmp on floats')
    return mk_some(_cmp(ex, st, info, args))


B.traits.setdefault(('Ord', 'cmp'), []).append((_ord_pred, _cmp))
B.traits.setdefault(('PartialOrd', 'partial_cmp'), []).append((_ord_pred, _partial_cmp))


def _rel(kind):
    def f(ex, st, info, args):
        r = lt_eq(ex, st, args[0], args[1])
        if r is None:
            raise ExecError('PartialOrd::%s on %r' % (kind, args[0]))
        lt, eq = r
        le = b_or(lt, eq)
        if kind == 'lt':
            return lt
        if kind == 'le':
            return le
        neg = lambda v: (not v) if isinstance(v, bool) else mk_bool(z3.Not(to_z3bool(v)))   # noqa: E731
        return neg(le) if kind == 'gt' else neg(lt)
    return f


for _k in ('lt', 'le', 'gt', 'ge'):
    B.traits.setdefault(('PartialOrd', _k), []).append((_ord_pred, _rel(_k)))


def _ord_minmax(want_max):
    def f(ex, st, info, args):
        a, b = args
        r = lt_eq(ex, st, a, b)
        if r is None:
            raise ExecError('Ord::min/max on %r' % (a,))
        lt, eq = r
        # max(a, b): if b < a {a} else {b};  min(a, b): if b < a {b} else {a}
        r2 = lt_eq(ex, st, b, a)
        blt = r2[0]
        if isinstance(blt, bool):
            return (a if blt else b) if want_max else (b if blt else a)
        return ite_value(to_z3bool(blt), a, b) if want_max else ite_value(to_z3bool(blt), b, a)
    return f


B.traits.setdefault(('Ord', 'max'), []).append((_ord_pred, _ord_minmax(True)))
B.traits.setdefault(('Ord', 'min'), []).append((_ord_pred, _ord_minmax(False)))


def _ord_clamp(ex, st, info, args):
    x, lo, hi = args
    r = lt_eq(ex, st, hi, lo)
    if r[0] is True:
        return Panic('assertion failed: min <= max')
    if r[0] is not False:
        raise ExecError('clamp with symbolic bounds')
    lt_lo = lt_eq(ex, st, x, lo)[0]
    gt_hi = lt_eq(ex, st, hi, x)[0]
    v = x
    v = (hi if gt_hi else v) if isinstance(gt_hi, bool) else ite_value(to_z3bool(gt_hi), hi, v)
    v = (lo if lt_lo else v) if isinstance(lt_lo, bool) else ite_value(to_z3bool(lt_lo), lo, v)
    return v


B.traits.setdefault(('Ord', 'clamp'), []).append((_ord_pred, _ord_clamp))
_int_method('clamp')(_ord_clamp)


@B.path('Ordering::is_lt', 'Ordering::is_le', 'Ordering::is_gt', 'Ordering::is_ge', 'Ordering::is_eq', 'Ordering::is_ne')
def ordering_is(ex, st, info, args):
    o = _val(ex, st, args[0])
    d = enum_discr_bv(o) if o.variant is None else z3.BitVecVal({'Less': -1, 'Equal': 0, 'Greater': 1}[o.variant], 64)
    k = info['path'].split('::')[-1]
    r = {'is_lt': d < 0, 'is_le': d <= 0, 'is_gt': d > 0, 'is_ge': d >= 0, 'is_eq': d == 0, 'is_ne': d != 0}[k]
    return mk_bool(z3.simplify(r))


@B.path('Ordering::reverse')
def ordering_reverse(ex, st, info, args):
    o = _val(ex, st, args[0])
    if o.variant is not None:
        return Enum('Ordering', {'Less': 'Greater', 'Equal': 'Equal', 'Greater': 'Less'}[o.variant], ())
    return Enum('Ordering', None, (), discr=-o.discr)


# ------------------------------------------------------------------------------------------ integer methods
def _w(a):
    return INT_TYPES[a.ty][0]


@_int_method('rotate_left')
def rotate_left(ex, st, info, args):
    a, n = args
    w = _w(a)
    x = to_bv(a)
    nn = z3.Extract(w - 1, 0, z3.ZeroExt(64, to_bv(n))) if to_bv(n).size() != w else to_bv(n)
    if to_bv(n).size() > w:
        nn = z3.Extract(w - 1, 0, z3.URem(to_bv(n), z3.BitVecVal(w, to_bv(n).size())))
    return _from_bits(a.ty, z3.simplify(z3.RotateLeft(x, z3.URem(nn, z3.BitVecVal(w, w)))))


@_int_method('rotate_right')
def rotate_right(ex, st, info, args):
    a, n = args
    w = _w(a)
    x = to_bv(a)
    nn = z3.Extract(w - 1, 0, z3.ZeroExt(64, to_bv(n))) if to_bv(n).size() != w else to_bv(n)
    if to_bv(n).size() > w:
        nn = z3.Extract(w - 1, 0, z3.URem(to_bv(n), z3.BitVecVal(w, to_bv(n).size())))
    return _from_bits(a.ty, z3.simplify(z3.RotateRight(x, z3.URem(nn, z3.BitVecVal(w, w)))))


def _from_bits(ty, bv):
    """Int of type ty from raw bits (concrete if the bits are a numeral)"""
    if z3.is_bv_value(bv):
        return Int(ty, norm_int(ty, bv.as_long()))
    return mk_int(ty, bv)


@_int_method('leading_zeros')
def leading_zeros(ex, st, info, args):
    a = args[0]
    w = _w(a)
    x = to_bv(a)
    r = z3.BitVecVal(w, 32)
    for i in range(w):            # lowest set bit processed first, highest last wins
        r = z3.If(z3.Extract(i, i, x) == 1, z3.BitVecVal(w - 1 - i, 32), r)
    return _from_bits('u32', z3.simplify(r))


@_int_method('trailing_zeros')
def trailing_zeros(ex, st, info, args):
    a = args[0]
    w = _w(a)
    x = to_bv(a)
    r = z3.BitVecVal(w, 32)
    for i in reversed(range(w)):
        r = z3.If(z3.Extract(i, i, x) == 1, z3.BitVecVal(i, 32), r)
    return _from_bits('u32', z3.simplify(r))


@_int_method('count_zeros')
def count_zeros(ex, st, info, args):
    a = args[0]
    ones = _bi.count_ones(ex, st, info, args)
    return int_binop('Sub', Int('u32', _w(a)), ones)


@_int_method('swap_bytes')
def swap_bytes(ex, st, info, args):
    a = args[0]
    w = _w(a)
    x = to_bv(a)
    bs = [z3.Extract(8 * i + 7, 8 * i, x) for i in range(w // 8)]
    return _from_bits(a.ty, z3.simplify(z3.Concat(*bs)) if len(bs) > 1 else x)


@_int_method('to_be')
def to_be(ex, st, info, args):
    return swap_bytes(ex, st, info, args)


@_int_method('to_le')
def to_le(ex, st, info, args):
    return args[0]


@_int_method('reverse_bits')
def reverse_bits(ex, st, info, args):
    a = args[0]
    w = _w(a)
    x = to_bv(a)
    return _from_bits(a.ty, z3.simplify(z3.Concat(*[z3.Extract(i, i, x) for i in range(w)])))


@_int_method('abs_diff')
def abs_diff(ex, st, info, args):
    a, b = args
    w, sg = INT_TYPES[a.ty]
    uty = a.ty.replace('i', 'u') if sg else a.ty
    x, y = to_bv(a), to_bv(b)
    lt = (x < y) if sg else z3.ULT(x, y)
    return _from_bits(uty, z3.simplify(z3.If(lt, y - x, x - y)))


@_int_method('unsigned_abs')
def unsigned_abs(ex, st, info, args):
    a = args[0]
    x = to_bv(a)
    return _from_bits(a.ty.replace('i', 'u'), z3.simplify(z3.If(x < 0, -x, x)))


@_int_method('wrapping_abs')
def wrapping_abs(ex, st, info, args):
    a = args[0]
    x = to_bv(a)
    return _from_bits(a.ty, z3.simplify(z3.If(x < 0, -x, x)))


@_int_method('wrapping_neg')
def wrapping_neg(ex, st, info, args):
    a = args[0]
    return _from_bits(a.ty, z3.simplify(-to_bv(a)))


@_int_method('wrapping_shl')
def wrapping_shl(ex, st, info, args):
    a, n = args
    w = _w(a)
    nn = z3.Extract(w - 1, 0, z3.ZeroExt(128, to_bv(n))) & z3.BitVecVal(w - 1, w)
    return _from_bits(a.ty, z3.simplify(to_bv(a) << nn))


@_int_method('wrapping_shr')
def wrapping_shr(ex, st, info, args):
    a, n = args
    w, sg = INT_TYPES[a.ty]
    nn = z3.Extract(w - 1, 0, z3.ZeroExt(128, to_bv(n))) & z3.BitVecVal(w - 1, w)
    return _from_bits(a.ty, z3.simplify((to_bv(a) >> nn) if sg else z3.LShR(to_bv(a), nn)))


@_int_method('div_euclid')
def div_euclid(ex, st, info, args):
    a, b = args
    w, sg = INT_TYPES[a.ty]
    q = _checked_int('Div', a, b, 'divide')
    if not sg:
        return q

    def fix(qv):
        if isinstance(qv, Panic):
            return qv
        x, y = to_bv(a), to_bv(b)
        r = z3.SRem(x, y)
        return _from_bits(a.ty, z3.simplify(z3.If(r < 0, z3.If(y > 0, to_bv(qv) - 1, to_bv(qv) + 1), to_bv(qv))))
    if isinstance(q, Choices):
        return Choices([(c, (lambda s, th=th: fix(th(s)))) for c, th in q.alts])
    return fix(q)


@_int_method('pow')
def int_pow(ex, st, info, args):
    a, e = args
    n = concrete_usize(e, 'exponent')

    def go(st2, r, left):
        if left == 0:
            return r
        t = _checked_int('Mul', r, a, 'multiply')
        if isinstance(t, Panic):
            return t
        if isinstance(t, Choices):
            return Choices([(c, (lambda s, th=th: (lambda v: v if isinstance(v, Panic) else go(s, v, left - 1))(th(s)))) for c, th in t.alts])
        return go(st2, t, left - 1)
    return go(st, Int(a.ty, 1), n)


@_int_method('checked_rem')
def checked_rem(ex, st, info, args):
    a, b = args
    z = int_binop('Eq', b, Int(b.ty, 0))
    if z is True:
        return NONE
    if z is False:
        return mk_some(int_binop('Rem', a, b))
    return Choices([(to_z3bool(z), lambda s: NONE), (z3.Not(to_z3bool(z)), lambda s: mk_some(int_binop('Rem', a, b)))])


@_int_method('checked_neg')
def checked_neg(ex, st, info, args):
    return _bi._checked('Sub')(ex, st, info, [Int(args[0].ty, 0), args[0]])


@_int_method('checked_pow')
def checked_pow(ex, st, info, args):
    a, e = args
    n = concrete_usize(e, 'exponent')
    r = Int(a.ty, 1)
    ovs = []
    for _ in range(n):
        r, ov = int_binop('MulWithOverflow', r, a).f
        if ov is True:
            return NONE
        if ov is not False:
            ovs.append(ov)
    if not ovs:
        return mk_some(r)
    bad = z3.Or(*ovs)
    return Choices([(bad, lambda s: NONE), (z3.Not(bad), lambda s: mk_some(r))])


@_int_method('is_positive')
def is_positive(ex, st, info, args):
    return int_binop('Gt', args[0], Int(args[0].ty, 0))


@_int_method('is_negative')
def is_negative(ex, st, info, args):
    return int_binop('Lt', args[0], Int(args[0].ty, 0))


@_int_method('overflowing_add')
def overflowing_add(ex, st, info, args):
    return int_binop('AddWithOverflow', args[0], args[1])


@_int_method('overflowing_sub')
def overflowing_sub(ex, st, info, args):
    return int_binop('SubWithOverflow', args[0], args[1])


@_int_method('overflowing_mul')
def overflowing_mul(ex, st, info, args):
    return int_binop('MulWithOverflow', args[0], args[1])


# ------------------------------------------------------------------------------------------ mem / Option / Result
def _default_like(v):
    if isinstance(v, Int):
        return Int(v.ty, 0)
    if isinstance(v, Flt):
        return mk_flt(v.ty, 0.0)
    if isinstance(v, bool) or is_boolish(v):
        return False
    if isinstance(v, Vec):
        return Vec(())
    if isinstance(v, RString):
        return RString(())
    if isinstance(v, Enum) and v.ty == 'Option':
        return NONE
    if isinstance(v, Tup):
        return Tup(tuple(_default_like(x) for x in v.f))
    if isinstance(v, Arr):
        return Arr(tuple(_default_like(x) for x in v.e))
    raise ExecError('mem::take of %r' % (v,))


@B.path('mem::take')
def mem_take(ex, st, info, args):
    r = args[0]
    v = ex.read_ref(st, r)
    ex.write_ref(st, r, _default_like(v))
    return v


@B.path('Option::replace')
def option_replace(ex, st, info, args):
    r, x = args
    old = ex.read_ref(st, r)
    ex.write_ref(st, r, mk_some(x))
    return old


@B.path('Option::insert')
def option_insert(ex, st, info, args):
    r, x = args
    ex.write_ref(st, r, mk_some(x))
    return Ref(r.base, r.projs + (('downcast', 'Some'), ('field', 0, '?')), True)


def _some_payload_ref(r):
    return Ref(r.base, r.projs + (('downcast', 'Some'), ('field', 0, '?')), True)


@B.path('Option::get_or_insert')
def option_get_or_insert(ex, st, info, args):
    r, x = args
    v = ex.read_ref(st, r)

    def none(s):
        ex.write_ref(s, r, mk_some(x))
        return _some_payload_ref(r)
    return on_option(v, lambda s, p: _some_payload_ref(r), none, st)


@B.path('Option::get_or_insert_with')
def option_get_or_insert_with(ex, st, info, args):
    r, f = args
    v = ex.read_ref(st, r)

    def none(s):
        def k(s2, x):
            ex.write_ref(s2, r, mk_some(x))
            return _some_payload_ref(r)
        return call_fn(f, [], k)
    return on_option(v, lambda s, p: _some_payload_ref(r), none, st)


@B.path('Option::zip')
def option_zip(ex, st, info, args):
    a, b = args
    if a.variant == 'None' or b.variant == 'None':
        return NONE
    return mk_some(Tup((a.f[0], b.f[0])))


@B.path('Option::xor')
def option_xor(ex, st, info, args):
    a, b = args
    if a.variant == 'Some' and b.variant == 'None':
        return a
    if a.variant == 'None' and b.variant == 'Some':
        return b
    return NONE


@B.path('Option::and')
def option_and(ex, st, info, args):
    a, b = args
    return NONE if a.variant == 'None' else b


@B.path('Option::or_else')
def option_or_else(ex, st, info, args):
    a, f = args
    if a.variant == 'Some':
        return a
    return call_fn(f, [], lambda s, r: r)


@B.path('Option::ok_or_else')
def option_ok_or_else(ex, st, info, args):
    a, f = args
    if a.variant == 'Some':
        return mk_ok(a.f[0])
    return call_fn(f, [], lambda s, r: mk_err(r))


@B.path('Option::is_none_or')
def option_is_none_or(ex, st, info, args):
    a, f = args
    if a.variant == 'None':
        return True
    return call_fn(f, [a.f[0]], lambda s, r: r)


@B.path('Option::inspect', 'Result::inspect')
def option_inspect(ex, st, info, args):
    a, f = args
    if a.variant in ('None', 'Err'):
        return a
    return call_fn(f, [Ref(('V', a.f[0]))], lambda s, r: a)


@B.path('Option::unzip')
def option_unzip(ex, st, info, args):
    a = args[0]
    if a.variant == 'None':
        return Tup((NONE, NONE))
    return Tup((mk_some(a.f[0].f[0]), mk_some(a.f[0].f[1])))


@B.path('Option::flatten')
def option_flatten(ex, st, info, args):
    a = args[0]
    return NONE if a.variant == 'None' else a.f[0]


@B.path('Option::as_deref', 'Option::as_deref_mut', 'Option::as_slice')
def option_as_deref(ex, st, info, args):
    r = args[0]
    v = _val(ex, st, r)
    if v.variant == 'None':
        return NONE
    return mk_some(_some_payload_ref(r) if isinstance(r, Ref) else Ref(('V', v.f[0])))


@B.path('Result::err')
def result_err(ex, st, info, args):
    v = args[0]
    return mk_some(v.f[0]) if v.variant == 'Err' else NONE


@B.path('Result::map_or')
def result_map_or(ex, st, info, args):
    v, d, f = args
    if v.variant == 'Err':
        return d
    return call_fn(f, [v.f[0]], lambda s, r: r)


@B.path('Result::map_or_else')
def result_map_or_else(ex, st, info, args):
    v, d, f = args
    if v.variant == 'Err':
        return call_fn(d, [v.f[0]], lambda s, r: r)
    return call_fn(f, [v.f[0]], lambda s, r: r)


@B.path('Result::or_else')
def result_or_else(ex, st, info, args):
    v, f = args
    if v.variant == 'Ok':
        return v
    return call_fn(f, [v.f[0]], lambda s, r: r)


@B.path('Result::or')
def result_or(ex, st, info, args):
    v, o = args
    return v if v.variant == 'Ok' else o


@B.path('Result::and')
def result_and(ex, st, info, args):
    v, o = args
    return o if v.variant == 'Ok' else v


@B.path('Result::is_ok_and')
def result_is_ok_and(ex, st, info, args):
    v, f = args
    if v.variant == 'Err':
        return False
    return call_fn(f, [v.f[0]], lambda s, r: r)


@B.path('Result::is_err_and')
def result_is_err_and(ex, st, info, args):
    v, f = args
    if v.variant == 'Ok':
        return False
    return call_fn(f, [v.f[0]], lambda s, r: r)


@B.path('Result::as_ref', 'Result::as_mut')
def result_as_ref(ex, st, info, args):
    r = args[0]
    v = ex.read_ref(st, r)
    return Enum('Result', v.variant, (Ref(r.base, r.projs + (('downcast', v.variant), ('field', 0, '?')), r.mut),))


@B.path('Result::unwrap_err', 'Result::expect_err')
def result_unwrap_err(ex, st, info, args):
    v = args[0]
    if v.variant == 'Err':
        return v.f[0]
    return Panic('called `Result::unwrap_err()` on an `Ok` value')


@B.path('Option::transpose')
def option_transpose(ex, st, info, args):
    v = args[0]
    if v.variant == 'None':
        return mk_ok(NONE)
    r = v.f[0]
    return mk_ok(mk_some(r.f[0])) if r.variant == 'Ok' else r


# ------------------------------------------------------------------------------------------ slices / Vec
def _elems(ex, st, r):
    v = _val(ex, st, r)
    return list(ex.elems_of(v)), v


def _eq_all(ex, st, pairs, k):
    """k(st, boolish) with the conjunction of element equalities"""
    def go(st2, i, acc):
        if i == len(pairs) or acc is False:
            return k(st2, acc)
        return eq_values(ex, st2, pairs[i][0], pairs[i][1], lambda s, r: go(s, i + 1, b_and(acc, mk_bool(r) if not isinstance(r, bool) else r)))
    return go(st, 0, True)


@B.path('slice::starts_with')
def slice_starts_with(ex, st, info, args):
    a, _ = _elems(ex, st, args[0])
    b, _ = _elems(ex, st, args[1])
    if len(b) > len(a):
        return False
    return _eq_all(ex, st, list(zip(a[:len(b)], b)), lambda s, r: r)


@B.path('slice::ends_with')
def slice_ends_with(ex, st, info, args):
    a, _ = _elems(ex, st, args[0])
    b, _ = _elems(ex, st, args[1])
    if len(b) > len(a):
        return False
    return _eq_all(ex, st, list(zip(a[len(a) - len(b):], b)), lambda s, r: r)


@B.path('slice::contains', 'Vec::contains')
def slice_contains(ex, st, info, args):
    a, _ = _elems(ex, st, args[0])
    x = _val(ex, st, args[1])

    def go(st2, i, acc):
        if i == len(a) or acc is True:
            return acc
        return eq_values(ex, st2, a[i], x, lambda s, r: go(s, i + 1, b_or(acc, mk_bool(r) if not isinstance(r, bool) else r)))
    return go(st, 0, False)


def _sub_ref(r, a, b):
    return Ref(r.base, r.projs + (('range', a, b),), r.mut)


@B.path('slice::windows')
def slice_windows(ex, st, info, args):
    r, n = args
    n = concrete_usize(n)
    if n == 0:
        return Panic('window size must be non-zero')
    el, _ = _elems(ex, st, r)
    return Struct('VecIntoIter', (Vec(tuple(_sub_ref(r, i, i + n) for i in range(0, len(el) - n + 1))), Int('usize', 0)))


@B.path('slice::chunks', 'slice::chunks_mut')
def slice_chunks(ex, st, info, args):
    r, n = args
    n = concrete_usize(n)
    if n == 0:
        return Panic('chunk size must be non-zero')
    el, _ = _elems(ex, st, r)
    return Struct('VecIntoIter', (Vec(tuple(_sub_ref(r, i, min(i + n, len(el))) for i in range(0, len(el), n))), Int('usize', 0)))


@B.path('slice::chunks_exact')
def slice_chunks_exact(ex, st, info, args):
    r, n = args
    n = concrete_usize(n)
    if n == 0:
        return Panic('chunk size must be non-zero')
    el, _ = _elems(ex, st, r)
    return Struct('VecIntoIter', (Vec(tuple(_sub_ref(r, i, i + n) for i in range(0, len(el) - n + 1, n))), Int('usize', 0)))


@B.path('slice::split_first', 'slice::split_first_mut')
def slice_split_first(ex, st, info, args):
    r = args[0]
    el, _ = _elems(ex, st, r)
    if not el:
        return NONE
    return mk_some(Tup((_bi._slice_elem_ref(r, 0), _sub_ref(r, 1, len(el)))))


@B.path('slice::split_last', 'slice::split_last_mut')
def slice_split_last(ex, st, info, args):
    r = args[0]
    el, _ = _elems(ex, st, r)
    if not el:
        return NONE
    return mk_some(Tup((_bi._slice_elem_ref(r, len(el) - 1), _sub_ref(r, 0, len(el) - 1))))


@B.path('slice::concat')
def slice_concat(ex, st, info, args):
    parts, _ = _elems(ex, st, args[0])
    out = []
    for p in parts:
        pv = _val(ex, st, p)
        out.extend(ex.elems_of(pv))
    ex.builtins_alloc(st, len(out))
    return Vec(tuple(out))


@B.path('slice::swap', 'Vec::swap')
def slice_swap(ex, st, info, args):
    r, i, j = args
    i, j = concrete_usize(i), concrete_usize(j)
    el, v = _elems(ex, st, r)
    if i >= len(el) or j >= len(el):
        return Panic('index out of bounds')
    el[i], el[j] = el[j], el[i]
    ex.write_ref(st, r, type(v)(tuple(el)))
    return UNIT


@B.path('slice::reverse', 'Vec::reverse')
def slice_reverse(ex, st, info, args):
    r = args[0]
    el, v = _elems(ex, st, r)
    ex.write_ref(st, r, type(v)(tuple(reversed(el))))
    return UNIT


@B.path('slice::rotate_left')
def slice_rotate_left(ex, st, info, args):
    r, n = args
    n = concrete_usize(n)
    el, v = _elems(ex, st, r)
    if n > len(el):
        return Panic('assertion failed: mid <= self.len()')
    ex.write_ref(st, r, type(v)(tuple(el[n:] + el[:n])))
    return UNIT


@B.path('slice::rotate_right')
def slice_rotate_right(ex, st, info, args):
    r, n = args
    n = concrete_usize(n)
    el, v = _elems(ex, st, r)
    if n > len(el):
        return Panic('assertion failed: k <= self.len()')
    k = len(el) - n
    ex.write_ref(st, r, type(v)(tuple(el[k:] + el[:k])))
    return UNIT


def _sorted_network(ex, st, el):
    """Sort values of one integer type: concrete -> sorted; symbolic -> odd-even transposition network of ite terms
    (stability is irrelevant for plain integers)."""
    vals = [_val(ex, st, x) for x in el]
    if not all(isinstance(v, Int) for v in vals):
        raise ExecError('sort of non-integer elements')
    if all(v.concrete for v in vals):
        return sorted(vals, key=lambda v: v.v)
    n = len(vals)
    for rnd in range(n):
        for i in range(rnd % 2, n - 1, 2):
            a, b = vals[i], vals[i + 1]
            gt = int_binop('Gt', a, b)
            if isinstance(gt, bool):
                if gt:
                    vals[i], vals[i + 1] = b, a
            else:
                c = to_z3bool(gt)
                vals[i], vals[i + 1] = ite_value(c, b, a), ite_value(c, a, b)
    return vals


@B.path('slice::sort', 'slice::sort_unstable', 'Vec::sort', 'Vec::sort_unstable')
def slice_sort(ex, st, info, args):
    r = args[0]
    el, v = _elems(ex, st, r)
    ex.write_ref(st, r, type(v)(tuple(_sorted_network(ex, st, el))))
    return UNIT


@B.path('Vec::dedup')
def vec_dedup(ex, st, info, args):
    r = args[0]
    el, v = _elems(ex, st, r)

    def go(st2, i, out):
        if i == len(el):
            ex.write_ref(st2, r, Vec(tuple(out)))
            return UNIT
        if not out:
            return go(st2, i + 1, [el[i]])
        return eq_values(ex, st2, out[-1], el[i], lambda s, e: branch(
            e, lambda s2: go(s2, i + 1, out), lambda s2: go(s2, i + 1, out + [el[i]]), s))
    return go(st, 0, [])


@B.path('Vec::retain', 'Vec::retain_mut')
def vec_retain(ex, st, info, args):
    r, f = args
    el, v = _elems(ex, st, r)

    def go(st2, i, out):
        if i == len(el):
            ex.write_ref(st2, r, Vec(tuple(out)))
            return UNIT
        return call_fn(f, [Ref(('V', el[i]))], lambda s, keep: branch(
            keep, lambda s2: go(s2, i + 1, out + [el[i]]), lambda s2: go(s2, i + 1, out), s))
    return go(st, 0, [])


@B.path('Vec::swap_remove')
def vec_swap_remove(ex, st, info, args):
    r, i = args
    i = concrete_usize(i)
    el, v = _elems(ex, st, r)
    if i >= len(el):
        return Panic('swap_remove index (is %d) should be < len (is %d)' % (i, len(el)))
    x = el[i]
    el[i] = el[-1]
    ex.write_ref(st, r, Vec(tuple(el[:-1])))
    return x


@B.path('Vec::extend')
def vec_extend(ex, st, info, args):
    r, src = args
    it = _bi.into_iter(ex, st, {'generics': None}, [src])

    def fin(s, acc):
        v = ex.read_ref(s, r)
        ex.builtins_alloc(s, len(acc))
        ex.write_ref(s, r, Vec(tuple(v.e) + tuple(acc)))
        return UNIT
    return drive(ex, st, it, (), lambda s, acc, x, go, stop: go(s, acc + (item_value(ex, s, x) if _is_copy_ref(x) else x,)), fin)


def _is_copy_ref(x):
    return isinstance(x, Ref)


@B.path('Vec::drain')
def vec_drain(ex, st, info, args):
    raise ExecError('Vec::drain is not modelled')


@B.path('Vec::iter', 'Vec::iter_mut')
def vec_iter(ex, st, info, args):
    return _bi.slice_iter(ex, st, info, args)


@B.path('slice::iter_rev')
def _unused(ex, st, info, args):
    raise ExecError('unused')


@B.path('array::map')
def array_map(ex, st, info, args):
    a, f = args
    el = list(a.e)

    def go(st2, i, out):
        if i == len(el):
            return Arr(tuple(out))
        return call_fn(f, [el[i]], lambda s, r: go(s, i + 1, out + [r]))
    return go(st, 0, [])


@B.path('array::as_slice', 'array::as_mut_slice', 'array::each_ref')
def array_as_slice(ex, st, info, args):
    return args[0]


@B.path('slice::binary_search')
def slice_binary_search(ex, st, info, args):
    raise ExecError('binary_search is not modelled')


@B.path('slice::join')
def slice_join(ex, st, info, args):
    raise ExecError('join is not modelled')


@B.path('slice::iter_sum')
def _unused2(ex, st, info, args):
    raise ExecError('unused')


@B.path('slice::repeat')
def slice_repeat(ex, st, info, args):
    r, n = args
    n = concrete_usize(n)
    el, _ = _elems(ex, st, r)
    ex.builtins_alloc(st, len(el) * n)
    return Vec(tuple(el) * n)


# ------------------------------------------------------------------------------------------ String / str
def _chars_of(ex, st, v):
    v = _val(ex, st, v)
    if isinstance(v, StrLit):
        return [Int('char', ord(c)) for c in v.s]
    cs = string_chars(v)
    if cs is None:
        raise ExecError('string with formatted (non-character) segments')
    return list(cs)


def _mk_string(chars):
    if not chars:
        return RString(())
    if all(isinstance(c, Int) and c.concrete for c in chars):
        return RString((''.join(chr(c.v) for c in chars),))
    return RString((('chars', tuple(chars)),))


@B.path('String::push_str')
def string_push_str(ex, st, info, args):
    r, s = args
    v = ex.read_ref(st, r)
    sv = _val(ex, st, s)
    add = (sv.s,) if isinstance(sv, StrLit) else tuple(sv.segs)
    ex.builtins_alloc(st, 1)
    ex.write_ref(st, r, RString(tuple(v.segs) + tuple(x for x in add if x != '')))
    return UNIT


@B.path('String::push')
def string_push(ex, st, info, args):
    r, c = args
    v = ex.read_ref(st, r)
    ex.builtins_alloc(st, 1)
    seg = chr(c.v) if c.concrete else ('chars', (c,))
    ex.write_ref(st, r, RString(tuple(v.segs) + (seg,)))
    return UNIT


@B.path('String::is_empty', 'str::is_empty')
def string_is_empty(ex, st, info, args):
    return len(_chars_of(ex, st, args[0])) == 0


@B.path('String::clear')
def string_clear(ex, st, info, args):
    ex.write_ref(st, args[0], RString(()))
    return UNIT


@B.path('String::with_capacity')
def string_with_capacity(ex, st, info, args):
    return RString(())


@B.path('String::pop')
def string_pop(ex, st, info, args):
    r = args[0]
    cs = _chars_of(ex, st, r)
    if not cs:
        return NONE
    ex.write_ref(st, r, _mk_string(cs[:-1]))
    return mk_some(cs[-1])


def _pat_pred(ex, st, pat):
    """pattern argument (char | &str | [char; N] | &[char]) -> ('char-set', [Int...]) or ('str', [Int...])"""
    p = _val(ex, st, pat)
    if isinstance(p, Int):
        return 'set', [p]
    if isinstance(p, (Arr, Vec)):
        return 'set', [_val(ex, st, x) for x in p.e]
    if isinstance(p, (StrLit, RString)):
        return 'str', _chars_of(ex, st, p)
    raise ExecError('string pattern %r' % (p,))


def _in_set(c, cs):
    acc = False
    for x in cs:
        acc = b_or(acc, int_binop('Eq', c, x))
    return acc


@B.path('str::starts_with', 'String::starts_with')
def str_starts_with(ex, st, info, args):
    cs = _chars_of(ex, st, args[0])
    kind, p = _pat_pred(ex, st, args[1])
    if kind == 'set':
        return _in_set(cs[0], p) if cs else False
    if len(p) > len(cs):
        return False
    acc = True
    for a, b in zip(cs, p):
        acc = b_and(acc, int_binop('Eq', a, b))
    return acc


@B.path('str::ends_with', 'String::ends_with')
def str_ends_with(ex, st, info, args):
    cs = _chars_of(ex, st, args[0])
    kind, p = _pat_pred(ex, st, args[1])
    if kind == 'set':
        return _in_set(cs[-1], p) if cs else False
    if len(p) > len(cs):
        return False
    acc = True
    for a, b in zip(cs[len(cs) - len(p):], p):
        acc = b_and(acc, int_binop('Eq', a, b))
    return acc


def _trim(which):
    def f(ex, st, info, args):
        cs = _chars_of(ex, st, args[0])
        if len(args) > 1:
            kind, p = _pat_pred(ex, st, args[1])
            if kind == 'str':
                if len(p) != 1:
                    raise ExecError('trim_*_matches with a multi-character string pattern')
                kind = 'set'
            test = lambda c: _in_set(c, p)      # noqa: E731
        else:
            ws = [Int('char', o) for o in (32, 9, 10, 11, 12, 13)]
            test = lambda c: _in_set(c, ws)     # noqa: E731

        def front(st2, cur):
            if which in ('start', 'both') and cur:
                return branch(test(cur[0]), lambda s: front(s, cur[1:]), lambda s: back(s, cur), st2)
            return back(st2, cur)

        def back(st2, cur):
            if which in ('end', 'both') and cur:
                return branch(test(cur[-1]), lambda s: back(s, cur[:-1]), lambda s: _mk_string(cur), st2)
            return _mk_string(cur)
        return front(st, cs)
    return f


B.paths['str::trim'] = _trim('both')
B.paths['str::trim_start'] = _trim('start')
B.paths['str::trim_end'] = _trim('end')
B.paths['str::trim_matches'] = _trim('both')
B.paths['str::trim_start_matches'] = _trim('start')
B.paths['str::trim_end_matches'] = _trim('end')


@B.path('str::to_string', 'str::to_owned', 'String::clone')
def str_to_string(ex, st, info, args):
    return _mk_string(_chars_of(ex, st, args[0]))


@B.path('str::as_bytes', 'String::as_bytes', 'String::into_bytes')
def str_as_bytes(ex, st, info, args):
    cs = _chars_of(ex, st, args[0])
    out = []
    for c in cs:
        if c.concrete:
            out.extend(Int('u8', b) for b in chr(c.v).encode())
        else:
            out.append(int_cast(c, 'u8'))      # only sound for ASCII: callers in scope build ASCII strings
    return Ref(('V', Arr(tuple(out))))


@B.path('char::from_u32')
def char_from_u32(ex, st, info, args):
    x = args[0]
    v = to_bv(x)
    ok = z3.And(z3.ULE(v, 0x10ffff), z3.Or(z3.ULT(v, 0xd800), z3.UGT(v, 0xdfff)))
    ok = mk_bool(z3.simplify(ok))
    c = int_cast(x, 'char')
    if isinstance(ok, bool):
        return mk_some(c) if ok else NONE
    return Choices([(to_z3bool(ok), lambda s: mk_some(c)), (z3.Not(to_z3bool(ok)), lambda s: NONE)])


@B.path('char::is_ascii_digit', 'char::is_ascii_uppercase', 'char::is_ascii_lowercase', 'char::is_ascii_alphabetic',
        'char::is_ascii_alphanumeric', 'char::is_ascii', 'char::is_ascii_hexdigit', 'char::is_ascii_whitespace',
        'u8::is_ascii_digit', 'u8::is_ascii_uppercase', 'u8::is_ascii_lowercase', 'u8::is_ascii_alphabetic',
        'u8::is_ascii_alphanumeric', 'u8::is_ascii', 'u8::is_ascii_hexdigit', 'u8::is_ascii_whitespace')
def char_class(ex, st, info, args):
    c = _val(ex, st, args[0])
    k = info['path'].split('::')[-1]
    v = to_bv(c)
    rng = lambda a, b: z3.And(z3.UGE(v, ord(a)), z3.ULE(v, ord(b)))       # noqa: E731
    r = {
        'is_ascii_digit': rng('0', '9'), 'is_ascii_uppercase': rng('A', 'Z'), 'is_ascii_lowercase': rng('a', 'z'),
        'is_ascii_alphabetic': z3.Or(rng('A', 'Z'), rng('a', 'z')),
        'is_ascii_alphanumeric': z3.Or(rng('A', 'Z'), rng('a', 'z'), rng('0', '9')),
        'is_ascii': z3.ULE(v, 127),
        'is_ascii_hexdigit': z3.Or(rng('0', '9'), rng('A', 'F'), rng('a', 'f')),
        'is_ascii_whitespace': z3.Or(v == 32, v == 9, v == 10, v == 12, v == 13),
    }[k]
    return mk_bool(z3.simplify(r))


@B.path('char::to_ascii_uppercase', 'u8::to_ascii_uppercase')
def to_ascii_upper(ex, st, info, args):
    c = _val(ex, st, args[0])
    v = to_bv(c)
    return _from_bits(c.ty, z3.simplify(z3.If(z3.And(z3.UGE(v, 97), z3.ULE(v, 122)), v - 32, v)))


@B.path('char::to_ascii_lowercase', 'u8::to_ascii_lowercase')
def to_ascii_lower(ex, st, info, args):
    c = _val(ex, st, args[0])
    v = to_bv(c)
    return _from_bits(c.ty, z3.simplify(z3.If(z3.And(z3.UGE(v, 65), z3.ULE(v, 90)), v + 32, v)))


# ------------------------------------------------------------------------------------------ bool
@B.path('bool::then_some')
def bool_then_some(ex, st, info, args):
    b, v = args
    return branch(b, lambda s: mk_some(v), lambda s: NONE, st)


@B.path('bool::then')
def bool_then(ex, st, info, args):
    b, f = args
    return branch(b, lambda s: call_fn(f, [], lambda s2, r: mk_some(r)), lambda s: NONE, st)
