"""Iterator adaptors and consumers over the builtin iterator structs (trusted base, DESIGN §1.1).

Everything is driven by builtins.iter_next in continuation-passing style, so closures are interpreted from MIR
and symbolic predicate results fork the path (Choices).  Lengths of the underlying sequences are concrete
(arrays, Vecs of concrete structure, ranges with concrete bounds)."""
import z3

from .values import *   # noqa
from .execu import ExecError, Call, Choices, Panic, int_binop, type_key
from . import builtins as _bi
from .builtins import B, NONE, mk_some, call_fn, deref_all, iter_next, generic_args


def _inner(itref, idx=0):
    return Ref(itref.base, itref.projs + (('field', idx, '?'),), True)


def on_bool(r, k_true, k_false):
    """r: Python bool or symbolic Bool; continuations take a state."""
    r = mk_bool(r) if not isinstance(r, bool) else r
    if r is True:
        return ('now', True)
    if r is False:
        return ('now', False)
    return Choices([(r, k_true), (z3.Not(to_z3bool(r)), k_false)])


def branch(r, k_true, k_false, st):
    x = on_bool(r, k_true, k_false)
    if isinstance(x, tuple):
        return k_true(st) if x[1] else k_false(st)
    return x


def on_option(o, k_some, k_none, st):
    """o: Option value, possibly with symbolic discriminant."""
    if o.variant == 'Some':
        return k_some(st, o.f[0])
    if o.variant == 'None':
        return k_none(st)
    alts = []
    for cond, ov in split_option(o):
        if ov.variant == 'Some':
            alts.append((cond, (lambda s, ov=ov: k_some(s, ov.f[0]))))
        else:
            alts.append((cond, (lambda s: k_none(s))))
    return Choices(alts)


def item_value(ex, st, x):
    return ex.read_ref(st, x) if isinstance(x, Ref) else x


# ------------------------------------------------------------------------------------------ adaptors (next)
def _next_filter(ex, st, itref, it, k):
    inner_ref = _inner(itref)
    pred = it.f[1]

    def cont(st2, o):
        if o.variant == 'None':
            return k(st2, NONE)
        x = o.f[0]
        return call_fn(pred, [Ref(('V', x))], lambda st3, r: branch(
            r, lambda s: k(s, mk_some(x)), lambda s: iter_next(ex, s, inner_ref, cont), st3))
    return iter_next(ex, st, inner_ref, cont)


def _next_filter_map(ex, st, itref, it, k):
    inner_ref = _inner(itref)
    f = it.f[1]

    def cont(st2, o):
        if o.variant == 'None':
            return k(st2, NONE)
        return call_fn(f, [o.f[0]], lambda st3, r: on_option(
            r, lambda s, v: k(s, mk_some(v)), lambda s: iter_next(ex, s, inner_ref, cont), st3))
    return iter_next(ex, st, inner_ref, cont)


def _next_skip(ex, st, itref, it, k):
    inner_ref = _inner(itref)
    n = it.f[1]
    if not n.concrete:
        raise ExecError('skip(symbolic)')
    if n.v == 0:
        return iter_next(ex, st, inner_ref, k)

    def cont(st2, o):
        if o.variant == 'None':
            return k(st2, NONE)
        cur = ex.read_ref(st2, itref)
        left = cur.f[1].v - 1
        ex.write_ref(st2, itref, Struct('Skip', (cur.f[0], Int('usize', left))))
        if left == 0:
            return iter_next(ex, st2, inner_ref, k)
        return iter_next(ex, st2, inner_ref, cont)
    return iter_next(ex, st, inner_ref, cont)


def _next_take(ex, st, itref, it, k):
    n = it.f[1]
    if not n.concrete:
        raise ExecError('take(symbolic)')
    if n.v == 0:
        return k(st, NONE)
    ex.write_ref(st, itref, Struct('Take', (it.f[0], Int('usize', n.v - 1))))
    return iter_next(ex, st, _inner(itref), k)


def _next_skip_while(ex, st, itref, it, k):
    inner_ref = _inner(itref)
    pred, done = it.f[1], it.f[2]
    if done:
        return iter_next(ex, st, inner_ref, k)

    def finish(s, x):
        cur = ex.read_ref(s, itref)
        ex.write_ref(s, itref, Struct('SkipWhile', (cur.f[0], cur.f[1], True)))
        return k(s, mk_some(x))

    def cont(st2, o):
        if o.variant == 'None':
            return k(st2, NONE)
        x = o.f[0]
        return call_fn(pred, [Ref(('V', x))], lambda st3, r: branch(
            r, lambda s: iter_next(ex, s, inner_ref, cont), lambda s: finish(s, x), st3))
    return iter_next(ex, st, inner_ref, cont)


def _next_take_while(ex, st, itref, it, k):
    inner_ref = _inner(itref)
    pred, done = it.f[1], it.f[2]
    if done:
        return k(st, NONE)

    def stop(s):
        cur = ex.read_ref(s, itref)
        ex.write_ref(s, itref, Struct('TakeWhile', (cur.f[0], cur.f[1], True)))
        return k(s, NONE)

    def cont(st2, o):
        if o.variant == 'None':
            return k(st2, NONE)
        x = o.f[0]
        return call_fn(pred, [Ref(('V', x))], lambda st3, r: branch(r, lambda s: k(s, mk_some(x)), stop, st3))
    return iter_next(ex, st, inner_ref, cont)


def _next_copied(ex, st, itref, it, k):
    def cont(st2, o):
        if o.variant == 'None':
            return k(st2, NONE)
        return k(st2, mk_some(item_value(ex, st2, o.f[0])))
    return iter_next(ex, st, _inner(itref), cont)


def _next_zip(ex, st, itref, it, k):
    def cont_a(st2, oa):
        if oa.variant == 'None':
            return k(st2, NONE)

        def cont_b(st3, ob):
            if ob.variant == 'None':
                return k(st3, NONE)
            return k(st3, mk_some(Tup((oa.f[0], ob.f[0]))))
        return iter_next(ex, st2, _inner(itref, 1), cont_b)
    return iter_next(ex, st, _inner(itref, 0), cont_a)


def _next_chain(ex, st, itref, it, k):
    if it.f[2]:
        return iter_next(ex, st, _inner(itref, 1), k)

    def cont(st2, o):
        if o.variant != 'None':
            return k(st2, o)
        cur = ex.read_ref(st2, itref)
        ex.write_ref(st2, itref, Struct('Chain', (cur.f[0], cur.f[1], True)))
        return iter_next(ex, st2, _inner(itref, 1), k)
    return iter_next(ex, st, _inner(itref, 0), cont)


def _next_rev_slice(ex, st, itref, it, k):
    r, i, n = it.f
    if i.v >= n.v:
        return k(st, NONE)
    ex.write_ref(st, itref, Struct('RevSliceIter', (r, i, Int('usize', n.v - 1))))
    return k(st, mk_some(Ref(r.base, r.projs + (('idx', Int('usize', n.v - 1)),), r.mut)))


def _next_rev_vec(ex, st, itref, it, k):
    v, i = it.f
    if i.v >= len(v.e):
        return k(st, NONE)
    ex.write_ref(st, itref, Struct('RevVecIter', (Vec(v.e[:-1]), i)))
    return k(st, mk_some(v.e[-1]))


def _next_rev_range(ex, st, itref, it, k):
    a, b = it.f
    lt = int_binop('Lt', a, b)
    if not isinstance(lt, bool):
        raise ExecError('symbolic range bounds')
    if not lt:
        return k(st, NONE)
    b2 = int_binop('Sub', b, Int(b.ty, 1))
    ex.write_ref(st, itref, Struct('RevRange', (a, b2)))
    return k(st, mk_some(b2))


def _next_step_by(ex, st, itref, it, k):
    step, first = it.f[1], it.f[2]
    inner_ref = _inner(itref)
    if first:
        ex.write_ref(st, itref, Struct('StepBy', (it.f[0], step, False)))
        return iter_next(ex, st, inner_ref, k)

    def skip(st2, left):
        if left == 0:
            return iter_next(ex, st2, inner_ref, k)
        return iter_next(ex, st2, inner_ref, lambda s, o: k(s, NONE) if o.variant == 'None' else skip(s, left - 1))
    return skip(st, step.v - 1)


def _next_chars(ex, st, itref, it, k):
    cs, i = it.f
    if i.v >= len(cs.e):
        return k(st, NONE)
    ex.write_ref(st, itref, Struct('CharsIter', (cs, Int('usize', i.v + 1))))
    return k(st, mk_some(cs.e[i.v]))


def _next_map_while(ex, st, itref, it, k):
    inner_ref = _inner(itref)
    f, done = it.f[1], it.f[2]
    if done:
        return k(st, NONE)

    def stop(s):
        cur = ex.read_ref(s, itref)
        ex.write_ref(s, itref, Struct('MapWhile', (cur.f[0], cur.f[1], True)))
        return k(s, NONE)

    def cont(st2, o):
        if o.variant == 'None':
            return k(st2, NONE)
        return call_fn(f, [o.f[0]], lambda st3, r: on_option(r, lambda s, v: k(s, mk_some(v)), stop, st3))
    return iter_next(ex, st, inner_ref, cont)


def _next_inspect(ex, st, itref, it, k):
    f = it.f[1]

    def cont(st2, o):
        if o.variant == 'None':
            return k(st2, NONE)
        x = o.f[0]
        return call_fn(f, [Ref(('V', x))], lambda st3, r: k(st3, mk_some(x)))
    return iter_next(ex, st, _inner(itref), cont)


_bi.ITER_EXT.update({
    'MapWhile': _next_map_while, 'Inspect': _next_inspect,
    'Filter': _next_filter, 'FilterMap': _next_filter_map, 'Skip': _next_skip, 'Take': _next_take,
    'SkipWhile': _next_skip_while, 'TakeWhile': _next_take_while, 'Copied': _next_copied, 'Zip': _next_zip,
    'Chain': _next_chain, 'RevSliceIter': _next_rev_slice, 'RevVecIter': _next_rev_vec, 'RevRange': _next_rev_range,
    'StepBy': _next_step_by, 'CharsIter': _next_chars,
})


def _as_iter(ex, st, v):
    """IntoIterator for arguments of zip/chain"""
    return _bi.into_iter(ex, st, {'generics': None}, [v])


@B.trait('Iterator', 'filter')
def it_filter(ex, st, info, args):
    return Struct('Filter', (args[0], args[1]))


@B.trait('Iterator', 'filter_map')
def it_filter_map(ex, st, info, args):
    return Struct('FilterMap', (args[0], args[1]))


@B.trait('Iterator', 'skip')
def it_skip(ex, st, info, args):
    return Struct('Skip', (args[0], args[1]))


@B.trait('Iterator', 'take')
def it_take(ex, st, info, args):
    return Struct('Take', (args[0], args[1]))


@B.trait('Iterator', 'skip_while')
def it_skip_while(ex, st, info, args):
    return Struct('SkipWhile', (args[0], args[1], False))


@B.trait('Iterator', 'take_while')
def it_take_while(ex, st, info, args):
    return Struct('TakeWhile', (args[0], args[1], False))


@B.trait('Iterator', 'copied')
@B.trait('Iterator', 'cloned')
def it_copied(ex, st, info, args):
    return Struct('Copied', (args[0],))


@B.trait('Iterator', 'zip')
def it_zip(ex, st, info, args):
    return Struct('Zip', (args[0], _as_iter(ex, st, args[1])))


@B.trait('Iterator', 'chain')
def it_chain(ex, st, info, args):
    return Struct('Chain', (args[0], _as_iter(ex, st, args[1]), False))


@B.trait('Iterator', 'step_by')
def it_step_by(ex, st, info, args):
    if not args[1].concrete or args[1].v == 0:
        raise ExecError('step_by(symbolic or 0)')
    return Struct('StepBy', (args[0], args[1], True))


@B.trait('Iterator', 'map_while')
def it_map_while(ex, st, info, args):
    return Struct('MapWhile', (args[0], args[1], False))


@B.trait('Iterator', 'inspect')
def it_inspect(ex, st, info, args):
    return Struct('Inspect', (args[0], args[1]))


@B.trait('Iterator', 'fuse')
def it_fuse(ex, st, info, args):
    return args[0]


@B.trait('Iterator', 'by_ref')
def it_by_ref(ex, st, info, args):
    return args[0]


@B.trait('Iterator', 'rev')
def it_rev(ex, st, info, args):
    it = args[0]
    if isinstance(it, Struct):
        if it.ty == 'SliceIter':
            return Struct('RevSliceIter', it.f)
        if it.ty == 'VecIntoIter':
            v, i = it.f
            return Struct('RevVecIter', (Vec(v.e[i.v:]), Int('usize', 0)))
        if it.ty == 'Range':
            return Struct('RevRange', it.f)
        if it.ty == 'RangeInclusive':
            a, b = it.f[0], it.f[1]
            if len(it.f) > 2 and it.f[2]:
                return Struct('RevRange', (a, a))
            return Struct('RevRange', (a, int_binop('Add', b, Int(b.ty, 1))))
        if it.ty == 'CharsIter':
            cs, i = it.f
            return Struct('RevVecIter', (Vec(cs.e[i.v:]), Int('usize', 0)))
    raise ExecError('rev on %r' % (getattr(it, 'ty', it),))


@B.trait('DoubleEndedIterator', 'next_back')
def it_next_back(ex, st, info, args):
    itref = args[0]
    it = ex.read_ref(st, itref)
    if isinstance(it, Struct) and it.ty == 'SliceIter':
        r, i, n = it.f
        if i.v >= n.v:
            return NONE
        ex.write_ref(st, itref, Struct('SliceIter', (r, i, Int('usize', n.v - 1))))
        return mk_some(Ref(r.base, r.projs + (('idx', Int('usize', n.v - 1)),), r.mut))
    if isinstance(it, Struct) and it.ty in ('RevSliceIter', 'RevVecIter', 'RevRange'):
        raise ExecError('next_back on a reversed iterator')
    raise ExecError('next_back on %r' % (getattr(it, 'ty', it),))


# ------------------------------------------------------------------------------------------ consumers
def drive(ex, st, it, init, step, finish):
    """Run iterator value `it`: step(st, acc, item, go_on, stop) with go_on(st, acc) / stop(st, result);
    finish(st, acc) at exhaustion."""
    cell = st.new_cell(it)
    itref = Ref(('C', cell), (), True)

    def end(st2, r):
        st2.cells.pop(cell, None)
        return r

    def mk(acc):
        def loop(st2, o):
            if o.variant == 'None':
                r = finish(st2, acc)
                st2.cells.pop(cell, None)
                return r
            return step(st2, acc, o.f[0],
                        lambda s, acc2: iter_next(ex, s, itref, mk(acc2)),
                        lambda s, r: end(s, r))
        return loop
    return iter_next(ex, st, itref, mk(init))


@B.trait('Iterator', 'fold')
def it_fold(ex, st, info, args):
    it, init, f = args
    return drive(ex, st, it, init,
                 lambda s, acc, x, go, stop: call_fn(f, [acc, x], lambda s2, r: go(s2, r)),
                 lambda s, acc: acc)


def _try_kind(r):
    """classify a Try value: ('continue', payload) | ('break', residual value to return)"""
    if isinstance(r, Enum) and r.ty == 'Result':
        return ('continue', r.f[0]) if r.variant == 'Ok' else ('break', r)
    if isinstance(r, Enum) and r.ty == 'Option' and r.variant is not None:
        return ('continue', r.f[0]) if r.variant == 'Some' else ('break', r)
    if isinstance(r, Enum) and r.ty == 'ControlFlow':
        return ('continue', r.f[0]) if r.variant == 'Continue' else ('break', r)
    raise ExecError('try_fold / try_for_each closure returned %r' % (r,))


@B.trait('Iterator', 'try_for_each')
def it_try_for_each(ex, st, info, args):
    itref, f = args
    wrap = {'v': None}

    def step(s, acc, x, go, stop):
        def k(s2, r):
            if isinstance(r, Enum) and r.ty == 'Option' and r.variant is None:
                return Choices([(c_, (lambda s3, ov=ov: k(s3, ov))) for c_, ov in split_option(r)])
            kind, p = _try_kind(r)
            wrap['v'] = r
            return go(s2, None) if kind == 'continue' else stop(s2, r)
        return call_fn(f, [x], k)

    def fin(s, acc):
        r = wrap['v']
        tgt = (generic_args(info['generics']) or [''])[-1] if info.get('generics') else ''
        if (r is not None and isinstance(r, Enum) and r.ty == 'Option') or type_key(tgt) == 'Option':
            return mk_some(UNIT)
        if (r is not None and isinstance(r, Enum) and r.ty == 'ControlFlow') or type_key(tgt) == 'ControlFlow':
            return Enum('ControlFlow', 'Continue', (UNIT,))
        return Enum('Result', 'Ok', (UNIT,))
    return _drive_ref(ex, st, itref, step, fin)


@B.trait('Iterator', 'try_fold')
def it_try_fold(ex, st, info, args):
    itref, init, f = args
    wrap = {'ty': None}

    def step(s, acc, x, go, stop):
        def k(s2, r):
            if isinstance(r, Enum) and r.ty == 'Option' and r.variant is None:
                return Choices([(c_, (lambda s3, ov=ov: k(s3, ov))) for c_, ov in split_option(r)])
            kind, p = _try_kind(r)
            wrap['ty'] = r.ty
            return go(s2, p) if kind == 'continue' else stop(s2, r)
        return call_fn(f, [acc, x], k)

    def fin(s, acc):
        tgt = (generic_args(info['generics']) or [''])[-1] if info.get('generics') else ''
        ty = wrap['ty'] or type_key(tgt)
        if ty == 'Option':
            return mk_some(acc)
        if ty == 'ControlFlow':
            return Enum('ControlFlow', 'Continue', (acc,))
        return Enum('Result', 'Ok', (acc,))
    return _drive_ref(ex, st, itref, step, fin, init=init)


@B.trait('Iterator', 'for_each')
def it_for_each(ex, st, info, args):
    it, f = args
    return drive(ex, st, it, None,
                 lambda s, acc, x, go, stop: call_fn(f, [x], lambda s2, r: go(s2, None)),
                 lambda s, acc: UNIT)


@B.trait('Iterator', 'count')
def it_count(ex, st, info, args):
    return drive(ex, st, args[0], 0, lambda s, acc, x, go, stop: go(s, acc + 1), lambda s, acc: Int('usize', acc))


@B.trait('Iterator', 'last')
def it_last(ex, st, info, args):
    return drive(ex, st, args[0], NONE, lambda s, acc, x, go, stop: go(s, mk_some(x)), lambda s, acc: acc)


@B.trait('Iterator', 'nth')
def it_nth(ex, st, info, args):
    itref, n = args
    if not n.concrete:
        raise ExecError('nth(symbolic)')

    def loop(st2, left):
        return iter_next(ex, st2, itref, lambda s, o: o if (o.variant == 'None' or left == 0) else loop(s, left - 1))
    return loop(st, n.v)


def _sum_like(op, unit):
    def f(ex, st, info, args):
        tgt = generic_args(info['generics'])[0].strip() if info.get('generics') else None

        def step(s, acc, x, go, stop):
            x = item_value(ex, s, x)
            if acc is None:
                return go(s, x)
            if isinstance(x, Int):
                r, ov = int_binop(op + 'WithOverflow', acc, x).f
                msg = 'attempt to %s with overflow' % ('add' if op == 'Add' else 'multiply')
                if isinstance(ov, bool):
                    return Panic(msg) if ov else go(s, r)
                return Choices([(ov, lambda s2: Panic(msg)), (z3.Not(ov), lambda s2: go(s2, r))])
            from .execu import flt_binop
            return go(s, flt_binop(op, acc, x))

        def finish(s, acc):
            if acc is None:
                if tgt in INT_TYPES:
                    return Int(tgt, unit)
                if tgt in FLOAT_TYPES:
                    return mk_flt(tgt, float(unit))
                raise ExecError('sum/product of an empty iterator of unknown type')
            return acc
        return drive(ex, st, args[0], None, step, finish)
    return f


B.trait('Iterator', 'sum')(_sum_like('Add', 0))
B.trait('Iterator', 'product')(_sum_like('Mul', 1))


@B.trait('Iterator', 'any')
def it_any(ex, st, info, args):
    itref, f = args
    it = ex.read_ref(st, itref) if isinstance(itref, Ref) else itref

    def step(s, acc, x, go, stop):
        return call_fn(f, [x], lambda s2, r: branch(r, lambda s3: stop(s3, True), lambda s3: go(s3, None), s2))
    return _drive_ref(ex, st, itref, step, lambda s, acc: False)


@B.trait('Iterator', 'all')
def it_all(ex, st, info, args):
    itref, f = args

    def step(s, acc, x, go, stop):
        return call_fn(f, [x], lambda s2, r: branch(r, lambda s3: go(s3, None), lambda s3: stop(s3, False), s2))
    return _drive_ref(ex, st, itref, step, lambda s, acc: True)


@B.trait('Iterator', 'find')
def it_find(ex, st, info, args):
    itref, f = args

    def step(s, acc, x, go, stop):
        return call_fn(f, [Ref(('V', x))], lambda s2, r: branch(r, lambda s3: stop(s3, mk_some(x)), lambda s3: go(s3, None), s2))
    return _drive_ref(ex, st, itref, step, lambda s, acc: NONE)


@B.trait('Iterator', 'find_map')
def it_find_map(ex, st, info, args):
    itref, f = args

    def step(s, acc, x, go, stop):
        return call_fn(f, [x], lambda s2, r: on_option(r, lambda s3, v: stop(s3, mk_some(v)), lambda s3: go(s3, None), s2))
    return _drive_ref(ex, st, itref, step, lambda s, acc: NONE)


@B.trait('Iterator', 'position')
def it_position(ex, st, info, args):
    itref, f = args

    def step(s, acc, x, go, stop):
        return call_fn(f, [x], lambda s2, r: branch(r, lambda s3: stop(s3, mk_some(Int('usize', acc))), lambda s3: go(s3, acc + 1), s2))
    return _drive_ref(ex, st, itref, step, lambda s, acc: NONE, init=0)


def _drive_ref(ex, st, itref, step, finish, init=None):
    """like drive, but on an iterator behind `&mut` (any/all/find/position take &mut self): state is written back"""
    if not isinstance(itref, Ref):
        return drive(ex, st, itref, init, step, finish)

    def mk(acc):
        def loop(st2, o):
            if o.variant == 'None':
                return finish(st2, acc)
            return step(st2, acc, o.f[0], lambda s, acc2: iter_next(ex, s, itref, mk(acc2)), lambda s, r: r)
        return loop
    return iter_next(ex, st, itref, mk(init))


def _minmax(want_max):
    def f(ex, st, info, args):
        def step(s, acc, x, go, stop):
            xv = item_value(ex, s, x)
            if acc is None:
                return go(s, (x, xv))
            ax, av = acc
            if not isinstance(xv, Int):
                raise ExecError('min/max over non-integers')
            # max returns the last maximal element, min the first minimal one
            c = int_binop('Ge' if want_max else 'Lt', xv, av)
            if isinstance(c, bool):
                return go(s, (x, xv) if c else acc)
            if isinstance(x, Ref):
                return Choices([(c, lambda s2: go(s2, (x, xv))), (z3.Not(to_z3bool(c)), lambda s2: go(s2, acc))])
            m = ite_value(to_z3bool(c), xv, av)
            return go(s, (m, m))
        return drive(ex, st, args[0], None, step, lambda s, acc: NONE if acc is None else mk_some(acc[0]))
    return f


B.trait('Iterator', 'max')(_minmax(True))
B.trait('Iterator', 'min')(_minmax(False))


# ------------------------------------------------------------------------------------------ sources
@B.path('str::chars')
def str_chars(ex, st, info, args):
    v = deref_all(ex, st, args[0])
    cs = _bi.string_chars(v)
    if cs is None:
        raise ExecError('chars() of a formatted string')
    return Struct('CharsIter', (Vec(tuple(cs)), Int('usize', 0)))


@B.path('str::bytes')
def str_bytes(ex, st, info, args):
    v = deref_all(ex, st, args[0])
    cs = _bi.string_chars(v)
    if cs is None:
        raise ExecError('bytes() of a formatted string')
    out = []
    for c in cs:
        if isinstance(c, Int) and c.concrete and c.v < 128:
            out.append(Int('u8', c.v))
        elif isinstance(c, Int):
            raise ExecError('bytes() of a string with symbolic characters')
        else:
            out.append(c)
    return Struct('CharsIter', (Vec(tuple(out)), Int('usize', 0)))
