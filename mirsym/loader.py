"""Dump MIR of the crates under /repo (from the current working tree, every time) and build a Program."""
import hashlib
import os
import subprocess
import time

from .execu import Program, Executor
from . import builtins as _b
from . import deku_bi, fmt_bi, float_bi, coll_bi, iter_bi, std_bi  # noqa: F401  (register builtins)

REPO = os.environ.get('VERIF_REPO', '/repo')
CACHE = os.environ.get('VERIF_CACHE', '/verif/.cache')

CRATES = {'adsb_deku': 'libadsb_deku', 'rsadsb_common': 'rsadsb_common'}


def dump_mir(crate, features='std', nonce=None):
    """Run rustc -Zunpretty=mir on the crate's lib target.  The dependency build products are cached in
    CACHE/target-<features>; the crate itself is always recompiled (a fresh --cfg nonce defeats cargo's
    fingerprint), so the dump reflects the working tree."""
    d = os.path.join(REPO, CRATES[crate])
    tgt = os.path.join(CACHE, 'target-mir')
    os.makedirs(tgt, exist_ok=True)
    nonce = nonce or ('n%d' % int(time.time() * 1000))
    cmd = ['cargo', '+nightly', 'rustc', '--offline', '--lib']
    if features == 'alloc':
        cmd += ['--no-default-features', '--features', 'alloc']
    cmd += ['--', '-Zunpretty=mir', '-C', 'debug-assertions=off', '-C', 'overflow-checks=on',
            '--cfg', 'verif_nonce_' + nonce, '-A', 'unexpected_cfgs']
    env = dict(os.environ)
    env['CARGO_TARGET_DIR'] = tgt
    env['CARGO_NET_OFFLINE'] = 'true'
    t = time.time()
    p = subprocess.run(cmd, cwd=d, env=env, stdout=subprocess.PIPE, stderr=subprocess.PIPE, text=True)
    if p.returncode != 0 or 'fn ' not in p.stdout:
        raise RuntimeError('MIR dump failed for %s (%s):\n%s' % (crate, features, p.stderr[-3000:]))
    return p.stdout, time.time() - t


def source_digest():
    h = hashlib.sha256()
    for c in CRATES.values():
        d = os.path.join(REPO, c, 'src')
        for fn in sorted(os.listdir(d)):
            if fn.endswith('.rs'):
                h.update(fn.encode())
                h.update(open(os.path.join(d, fn), 'rb').read())
    return h.hexdigest()[:16]


def load_program(crates=('adsb_deku',), features='std'):
    prog = Program(REPO)
    info = {'dump_s': {}, 'features': features, 'source_digest': source_digest()}
    for c in crates:
        text, dt = dump_mir(c, features)
        info['dump_s'][c] = round(dt, 2)
        prog.add_mir(text, CRATES[c])
    info['mir_items'] = len(prog.items)
    return prog, info


def new_executor(prog, **kw):
    return Executor(prog, _b.B, **kw)
