"""libm builtins: floor/ceil/sqrt/fabs are exact z3 FP operations; transcendental functions are uninterpreted
functions (congruence only) -- see DESIGN §1.1 builtin 5."""
import math
import z3

from .values import *   # noqa
from .execu import ExecError
from .builtins import B

_UF = {}


def uf(name, ty, arity):
    key = (name, ty, arity)
    f = _UF.get(key)
    if f is None:
        s = FLOAT_TYPES[ty]
        f = z3.Function('libm_%s_%s' % (name, ty), *([s] * arity + [s]))
        _UF[key] = f
    return f


def _round(mode_z3, pyfn):
    def f(ex, st, info, args):
        x = args[0]
        if x.concrete:
            v = x.v
            if v != v or math.isinf(v):
                return x
            return mk_flt(x.ty, float(pyfn(v)))
        return Flt(x.ty, z3.fpRoundToIntegral(mode_z3, x.v))
    return f


B.paths['libm::floor'] = B.paths['floor'] = _round(z3.RTN(), math.floor)
B.paths['libm::ceil'] = B.paths['ceil'] = _round(z3.RTP(), math.ceil)
B.paths['libm::trunc'] = B.paths['trunc'] = _round(z3.RTZ(), math.trunc)
B.paths['libm::floorf'] = B.paths['floorf'] = B.paths['libm::floor']
B.paths['libm::ceilf'] = B.paths['ceilf'] = B.paths['libm::ceil']


@B.path('libm::sqrt', 'sqrt', 'libm::sqrtf', 'sqrtf', 'f64::sqrt', 'f32::sqrt')
def bi_sqrt(ex, st, info, args):
    x = args[0]
    if x.concrete:
        return mk_flt(x.ty, math.sqrt(x.v) if x.v >= 0 else float('nan'))
    return Flt(x.ty, z3.fpSqrt(RNE, x.v))


@B.path('libm::fabs', 'fabs', 'f64::abs', 'f32::abs', 'libm::fabsf')
def bi_fabs(ex, st, info, args):
    x = args[0]
    if x.concrete:
        return mk_flt(x.ty, abs(x.v))
    return Flt(x.ty, z3.fpAbs(x.v))


def _uf_builtin(name, arity):
    def f(ex, st, info, args):
        ty = args[0].ty
        if all(a.concrete for a in args) and ex.concrete_libm:
            fn = getattr(math, name if name != 'powf' else 'pow')
            try:
                return mk_flt(ty, fn(*[a.v for a in args]))
            except (ValueError, OverflowError):
                return mk_flt(ty, float('nan'))
        return Flt(ty, uf(name, ty, arity)(*[to_fp(a) for a in args]))
    return f


for _n, _a in (('sin', 1), ('cos', 1), ('tan', 1), ('atan', 1), ('asin', 1), ('acos', 1), ('exp', 1), ('log', 1),
               ('atan2', 2), ('hypot', 2), ('pow', 2)):
    B.paths['libm::' + _n] = B.paths[_n] = _uf_builtin(_n, _a)
B.paths['libm::powf'] = B.paths['powf'] = _uf_builtin('pow', 2)
B.paths['libm::sinf'] = B.paths['sinf'] = _uf_builtin('sin', 1)
B.paths['libm::cosf'] = B.paths['cosf'] = _uf_builtin('cos', 1)


@B.path('f64::to_radians', 'f32::to_radians')
def to_radians(ex, st, info, args):
    x = args[0]
    k = math.pi / 180.0
    if x.concrete:
        return mk_flt(x.ty, x.v * k)
    return Flt(x.ty, z3.fpMul(RNE, x.v, z3.FPVal(k, FLOAT_TYPES[x.ty])))


@B.path('f64::to_degrees', 'f32::to_degrees')
def to_degrees(ex, st, info, args):
    x = args[0]
    k = 180.0 / math.pi
    if x.concrete:
        return mk_flt(x.ty, x.v * k)
    return Flt(x.ty, z3.fpMul(RNE, x.v, z3.FPVal(k, FLOAT_TYPES[x.ty])))


@B.path('f64::is_nan', 'f32::is_nan')
def is_nan(ex, st, info, args):
    x = args[0]
    if x.concrete:
        return x.v != x.v
    return mk_bool(z3.fpIsNaN(x.v))
