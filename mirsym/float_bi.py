"""libm builtins: floor/ceil/sqrt/fabs are exact z3 FP operations; transcendental functions are uninterpreted
functions (congruence only) -- see DESIGN §1.1 builtin 5."""
import math
import z3

from .values import *   # noqa
from .execu import ExecError, Panic
from .builtins import B

_UF = {}


def uf(name, ty, arity, family='libm'):
    """Uninterpreted function standing for a transcendental function.  The libm crate's functions and the std
    methods (family 'stdm': the platform's libm) are *different* functions: nothing guarantees bit-equal results."""
    key = (name, ty, arity, family)
    f = _UF.get(key)
    if f is None:
        s = FLOAT_TYPES[ty]
        f = z3.Function('%s_%s_%s' % (family, name, ty), *([s] * arity + [s]))
        _UF[key] = f
    return f


def _round(mode_z3, pyfn):
    def f(ex, st, info, args):
        x = args[0]
        if x.concrete:
            v = x.v
            if v != v or math.isinf(v):
                return x
            return mk_flt(x.ty, float(pyfn(v)))
        return Flt(x.ty, z3.fpRoundToIntegral(mode_z3, x.v))
    return f


B.paths['libm::floor'] = B.paths['floor'] = _round(z3.RTN(), math.floor)
B.paths['libm::ceil'] = B.paths['ceil'] = _round(z3.RTP(), math.ceil)
B.paths['libm::trunc'] = B.paths['trunc'] = _round(z3.RTZ(), math.trunc)
B.paths['libm::floorf'] = B.paths['floorf'] = B.paths['libm::floor']
B.paths['libm::ceilf'] = B.paths['ceilf'] = B.paths['libm::ceil']


@B.path('libm::sqrt', 'sqrt', 'libm::sqrtf', 'sqrtf', 'f64::sqrt', 'f32::sqrt')
def bi_sqrt(ex, st, info, args):
    x = args[0]
    if x.concrete:
        return mk_flt(x.ty, math.sqrt(x.v) if x.v >= 0 else float('nan'))
    return Flt(x.ty, z3.fpSqrt(RNE, x.v))


@B.path('libm::fabs', 'fabs', 'f64::abs', 'f32::abs', 'libm::fabsf')
def bi_fabs(ex, st, info, args):
    x = args[0]
    if x.concrete:
        return mk_flt(x.ty, abs(x.v))
    return Flt(x.ty, z3.fpAbs(x.v))


def _uf_builtin(name, arity, family='libm'):
    def f(ex, st, info, args):
        ty = args[0].ty
        if all(a.concrete for a in args) and ex.concrete_libm:
            fn = getattr(math, name if name != 'powf' else 'pow')
            try:
                return mk_flt(ty, fn(*[a.v for a in args]))
            except (ValueError, OverflowError):
                return mk_flt(ty, float('nan'))
        return Flt(ty, uf(name, ty, arity, family)(*[to_fp(a) for a in args]))
    return f


for _n, _a in (('sin', 1), ('cos', 1), ('tan', 1), ('atan', 1), ('asin', 1), ('acos', 1), ('exp', 1), ('log', 1),
               ('atan2', 2), ('hypot', 2), ('pow', 2)):
    B.paths['libm::' + _n] = B.paths[_n] = _uf_builtin(_n, _a)
B.paths['libm::powf'] = B.paths['powf'] = _uf_builtin('pow', 2)
B.paths['libm::sinf'] = B.paths['sinf'] = _uf_builtin('sin', 1)
B.paths['libm::cosf'] = B.paths['cosf'] = _uf_builtin('cos', 1)


@B.path('f64::to_radians', 'f32::to_radians')
def to_radians(ex, st, info, args):
    x = args[0]
    k = math.pi / 180.0
    if x.concrete:
        return mk_flt(x.ty, x.v * k)
    return Flt(x.ty, z3.fpMul(RNE, x.v, z3.FPVal(k, FLOAT_TYPES[x.ty])))


@B.path('f64::to_degrees', 'f32::to_degrees')
def to_degrees(ex, st, info, args):
    x = args[0]
    k = 180.0 / math.pi
    if x.concrete:
        return mk_flt(x.ty, x.v * k)
    return Flt(x.ty, z3.fpMul(RNE, x.v, z3.FPVal(k, FLOAT_TYPES[x.ty])))


@B.path('f64::is_nan', 'f32::is_nan')
def is_nan(ex, st, info, args):
    x = args[0]
    if x.concrete:
        return x.v != x.v
    return mk_bool(z3.fpIsNaN(x.v))


# ------------------------------------------------------------------------------------ inherent f64 / f32 methods
def _fmethod(*names):
    def deco(fn):
        for n in names:
            for t in ('f64', 'f32'):
                B.paths['%s::%s' % (t, n)] = fn
        return fn
    return deco


def _rounder(mode, py):
    def f(ex, st, info, args):
        x = args[0]
        if x.concrete:
            v = x.v
            if v != v or math.isinf(v):
                return x
            return mk_flt(x.ty, float(py(v)))
        return Flt(x.ty, z3.fpRoundToIntegral(mode, x.v))
    return f


def _py_round_away(v):
    return math.floor(abs(v) + 0.5) * (1 if v >= 0 else -1)


_fmethod('round')(_rounder(z3.RNA(), _py_round_away))
for _n in ('libm::round', 'round', 'libm::roundf', 'roundf'):
    B.paths[_n] = _rounder(z3.RNA(), _py_round_away)
for _n in ('libm::rint', 'rint', 'libm::rintf', 'rintf', 'libm::roundeven', 'libm::roundevenf'):
    B.paths[_n] = _rounder(z3.RNE(), lambda v: round(v))
for _n in ('libm::truncf', 'truncf'):
    B.paths[_n] = _rounder(z3.RTZ(), math.trunc)
_fmethod('round_ties_even')(_rounder(z3.RNE(), lambda v: round(v)))
_fmethod('floor')(_rounder(z3.RTN(), math.floor))
_fmethod('ceil')(_rounder(z3.RTP(), math.ceil))
_fmethod('trunc')(_rounder(z3.RTZ(), math.trunc))


@_fmethod('min')
def f_min(ex, st, info, args):
    a, b = args
    if a.concrete and b.concrete:
        return mk_flt(a.ty, min(a.v, b.v) if a.v == a.v and b.v == b.v else (b.v if a.v != a.v else a.v))
    return Flt(a.ty, z3.fpMin(to_fp(a), to_fp(b)))


@_fmethod('max')
def f_max(ex, st, info, args):
    a, b = args
    if a.concrete and b.concrete:
        return mk_flt(a.ty, max(a.v, b.v) if a.v == a.v and b.v == b.v else (b.v if a.v != a.v else a.v))
    return Flt(a.ty, z3.fpMax(to_fp(a), to_fp(b)))


@_fmethod('mul_add')
def f_mul_add(ex, st, info, args):
    a, b, c = args
    return Flt(a.ty, z3.fpFMA(RNE, to_fp(a), to_fp(b), to_fp(c)))


@_fmethod('signum')
def f_signum(ex, st, info, args):
    x = args[0]
    s = FLOAT_TYPES[x.ty]
    v = to_fp(x)
    return Flt(x.ty, z3.If(z3.fpIsNaN(v), v, z3.If(z3.fpIsNegative(v), z3.FPVal(-1.0, s), z3.FPVal(1.0, s))))


@_fmethod('rem_euclid')
def f_rem_euclid(ex, st, info, args):
    from .execu import fp_fmod, fp_cmp
    a, b = args
    r = fp_fmod(to_fp(a), to_fp(b), a.ty)
    neg = to_z3bool(fp_cmp('Lt', r, z3.FPVal(0.0, FLOAT_TYPES[a.ty])))
    return Flt(a.ty, z3.If(neg, z3.fpAdd(RNE, r, z3.fpAbs(to_fp(b))), r))


for _n, _a in (('sin', 1), ('cos', 1), ('tan', 1), ('atan', 1), ('asin', 1), ('acos', 1), ('exp', 1), ('ln', 1), ('atan2', 2), ('hypot', 2), ('powf', 2)):
    for _t in ('f64', 'f32'):
        B.paths['%s::%s' % (_t, _n)] = _uf_builtin({'ln': 'log', 'powf': 'pow'}.get(_n, _n), _a, 'stdm')


@_fmethod('powi')
def f_powi(ex, st, info, args):
    x, n = args
    if not n.concrete or abs(n.v) > 8:
        raise ExecError('powi with symbolic / large exponent')
    s = FLOAT_TYPES[x.ty]
    r = z3.FPVal(1.0, s)
    for _ in range(abs(n.v)):
        r = z3.fpMul(RNE, r, to_fp(x))
    if n.v < 0:
        r = z3.fpDiv(RNE, z3.FPVal(1.0, s), r)
    return Flt(x.ty, r)


@_fmethod('is_finite')
def f_is_finite(ex, st, info, args):
    x = args[0]
    if x.concrete:
        return not (math.isinf(x.v) or x.v != x.v)
    from .execu import fp_atom
    return fp_atom(z3.Not(z3.Or(z3.fpIsInf(x.v), z3.fpIsNaN(x.v))))


@_fmethod('clamp')
def f_clamp(ex, st, info, args):
    from .execu import fp_cmp
    x, lo, hi = args
    if not (lo.concrete and hi.concrete):
        raise ExecError('f64::clamp with symbolic bounds')
    if not (lo.v <= hi.v):
        return Panic('min > max, or either was NaN')
    if x.concrete:
        v = x.v
        return mk_flt(x.ty, lo.v if v < lo.v else (hi.v if v > hi.v else v))
    xv = to_fp(x)
    lt = to_z3bool(fp_cmp('Lt', xv, to_fp(lo)))
    gt = to_z3bool(fp_cmp('Gt', xv, to_fp(hi)))
    return Flt(x.ty, z3.If(lt, to_fp(lo), z3.If(gt, to_fp(hi), xv)))
