"""Value domain of the MIR symbolic executor.  All values are immutable."""
import struct
import z3

INT_TYPES = {
    'u8': (8, False), 'u16': (16, False), 'u32': (32, False), 'u64': (64, False), 'u128': (128, False),
    'usize': (64, False), 'i8': (8, True), 'i16': (16, True), 'i32': (32, True), 'i64': (64, True),
    'i128': (128, True), 'isize': (64, True), 'char': (32, False),
}
FLOAT_TYPES = {'f32': z3.Float32(), 'f64': z3.Float64()}
RNE = z3.RNE()


class Unmergeable(Exception):
    pass


class Int:
    __slots__ = ('ty', 'v')

    def __init__(self, ty, v):
        self.ty = ty
        self.v = v

    def __repr__(self):
        return 'Int(%s,%s)' % (self.ty, self.v)

    @property
    def concrete(self):
        return isinstance(self.v, int)


class Flt:
    __slots__ = ('ty', 'v')

    def __init__(self, ty, v):
        self.ty = ty
        self.v = v

    def __repr__(self):
        return 'Flt(%s,%s)' % (self.ty, self.v)

    @property
    def concrete(self):
        return isinstance(self.v, float)


class Tup:
    __slots__ = ('f',)

    def __init__(self, f):
        self.f = tuple(f)

    def __repr__(self):
        return 'Tup%r' % (self.f,)


UNIT = Tup(())


class Struct:
    __slots__ = ('ty', 'f')

    def __init__(self, ty, f):
        self.ty = ty
        self.f = tuple(f)

    def __repr__(self):
        return '%s%r' % (self.ty, self.f)


class Arr:
    __slots__ = ('e',)

    def __init__(self, e):
        self.e = tuple(e)

    def __repr__(self):
        return 'Arr%r' % (self.e,)


class Vec:
    """alloc::vec::Vec with concrete length."""
    __slots__ = ('e',)

    def __init__(self, e):
        self.e = tuple(e)

    def __repr__(self):
        return 'Vec%r' % (self.e,)


class RString:
    """alloc::string::String as a tuple of segments:
       str literal | ('chars', (Int,...)) | ('val', spec, value)   (spec = formatting spec text)."""
    __slots__ = ('segs',)

    def __init__(self, segs):
        self.segs = tuple(segs)

    def __repr__(self):
        return 'RString%r' % (self.segs,)


class StrLit:
    """&'static str"""
    __slots__ = ('s',)

    def __init__(self, s):
        self.s = s

    def __repr__(self):
        return 'StrLit(%r)' % self.s


class Enum:
    """ADT enum value.  variant: name (str).  For field-less enums with a symbolic discriminant:
    variant is None and discr holds a 64-bit z3 term (isize)."""
    __slots__ = ('ty', 'variant', 'f', 'discr')

    def __init__(self, ty, variant, f=(), discr=None):
        self.ty = ty
        self.variant = variant
        self.f = tuple(f)
        self.discr = discr
        if variant is None and discr is None:
            raise AssertionError('enum %s without variant and discriminant' % ty)

    def __repr__(self):
        if self.variant is None:
            return '%s::<sym %s>' % (self.ty, self.discr)
        return '%s::%s%r' % (self.ty, self.variant, self.f)


class Ref:
    """Reference/pointer: base = ('L', depth, local) | ('S', name) | ('V', value) | ('C', cell id); projs w/o deref."""
    __slots__ = ('base', 'projs', 'mut', 'meta')

    def __init__(self, base, projs=(), mut=False, meta=None):
        self.base = base
        self.projs = tuple(projs)
        self.mut = mut
        self.meta = meta   # e.g. dyn type name

    def __repr__(self):
        return 'Ref(%r,%r)' % (self.base, self.projs)


class Box:
    __slots__ = ('v',)

    def __init__(self, v):
        self.v = v

    def __repr__(self):
        return 'Box(%r)' % (self.v,)


class Closure:
    __slots__ = ('name', 'caps')

    def __init__(self, name, caps):
        self.name = name
        self.caps = tuple(caps)

    def __repr__(self):
        return 'Closure(%s)' % self.name


class FnDef:
    __slots__ = ('name',)

    def __init__(self, name):
        self.name = name

    def __repr__(self):
        return 'FnDef(%s)' % self.name


class Opaque:
    """Builtin-managed object (immutable payload)."""
    __slots__ = ('kind', 'p')

    def __init__(self, kind, p=None):
        self.kind = kind
        self.p = p

    def __repr__(self):
        return 'Opaque(%s,%r)' % (self.kind, self.p)


class BMap:
    """BTreeMap with concrete structure: entries = tuple of (key, value), kept in key order as far as known."""
    __slots__ = ('ents',)

    def __init__(self, ents):
        self.ents = tuple(ents)

    def __repr__(self):
        return 'BMap%r' % (self.ents,)


class _Uninit:
    def __repr__(self):
        return 'UNINIT'


UNINIT = _Uninit()


# ---------------------------------------------------------------------------------------- helpers
def is_sym(x):
    return isinstance(x, z3.ExprRef)


def to_bv(i):
    """z3 bit-vector for an Int (raw two's-complement bits)."""
    w, _ = INT_TYPES[i.ty]
    if isinstance(i.v, int):
        return z3.BitVecVal(i.v & ((1 << w) - 1), w)
    return i.v


def norm_int(ty, v):
    """Normalise a python int to the mathematical value of type ty (wrapping)."""
    w, s = INT_TYPES[ty]
    v &= (1 << w) - 1
    if s and v >> (w - 1):
        v -= 1 << w
    return v


def mk_int(ty, v):
    """Build an Int from a python int or z3 term; folds constant z3 terms to python ints."""
    if isinstance(v, int):
        return Int(ty, norm_int(ty, v))
    if z3.is_bv_value(v):
        return Int(ty, norm_int(ty, v.as_long()))
    return Int(ty, v)


def simp_int(i):
    """Simplify a symbolic Int (used where a concrete value is required or terms get reused a lot)."""
    if isinstance(i.v, int):
        return i
    s = z3.simplify(i.v)
    if z3.is_bv_value(s):
        return Int(i.ty, norm_int(i.ty, s.as_long()))
    return Int(i.ty, s)


def mk_bool(b):
    if isinstance(b, bool):
        return b
    if z3.is_true(b):
        return True
    if z3.is_false(b):
        return False
    s = z3.simplify(b)
    if z3.is_true(s):
        return True
    if z3.is_false(s):
        return False
    return s


def to_z3bool(b):
    if isinstance(b, bool):
        return z3.BoolVal(b)
    return b


def f32_round(x):
    return struct.unpack('<f', struct.pack('<f', x))[0]


def to_fp(f):
    sort = FLOAT_TYPES[f.ty]
    if isinstance(f.v, float):
        return z3.FPVal(f.v, sort)
    return f.v


def mk_flt(ty, v):
    if isinstance(v, (int, float)):
        v = float(v)
        if ty == 'f32':
            v = f32_round(v)
        return Flt(ty, v)
    return Flt(ty, v)


def b_not(a):
    if isinstance(a, bool):
        return not a
    return mk_bool(z3.Not(a))


def b_and(a, b):
    if a is False or b is False:
        return False
    if a is True:
        return b
    if b is True:
        return a
    return mk_bool(z3.And(a, b))


def b_or(a, b):
    if a is True or b is True:
        return True
    if a is False:
        return b
    if b is False:
        return a
    return mk_bool(z3.Or(a, b))


def ite_value(c, a, b):
    """Merge two values of the same shape under condition c (z3 Bool): c ? a : b."""
    if a is b:
        return a
    ta = type(a)
    if ta is not type(b):
        # bool vs BoolRef
        if isinstance(a, (bool, z3.BoolRef)) and isinstance(b, (bool, z3.BoolRef)):
            return mk_bool(z3.If(c, to_z3bool(a), to_z3bool(b)))
        raise Unmergeable('types %s / %s' % (ta.__name__, type(b).__name__))
    if ta is Int:
        if a.ty != b.ty:
            raise Unmergeable('int types')
        if isinstance(a.v, int) and isinstance(b.v, int) and a.v == b.v:
            return a
        if is_sym(a.v) and is_sym(b.v) and a.v.eq(b.v):
            return a
        return mk_int(a.ty, z3.If(c, to_bv(a), to_bv(b)))
    if ta is bool or isinstance(a, z3.BoolRef):
        if isinstance(a, bool) and isinstance(b, bool) and a == b:
            return a
        return mk_bool(z3.If(c, to_z3bool(a), to_z3bool(b)))
    if ta is Flt:
        if a.ty != b.ty:
            raise Unmergeable('float types')
        if isinstance(a.v, float) and isinstance(b.v, float) and (a.v == b.v and str(a.v) == str(b.v)):
            return a
        return Flt(a.ty, z3.If(c, to_fp(a), to_fp(b)))
    if ta is Tup:
        if len(a.f) != len(b.f):
            raise Unmergeable('tuple arity')
        return Tup([ite_value(c, x, y) for x, y in zip(a.f, b.f)])
    if ta is Struct:
        if a.ty != b.ty or len(a.f) != len(b.f):
            raise Unmergeable('struct type')
        return Struct(a.ty, [ite_value(c, x, y) for x, y in zip(a.f, b.f)])
    if ta is Arr:
        if len(a.e) != len(b.e):
            raise Unmergeable('array len')
        return Arr([ite_value(c, x, y) for x, y in zip(a.e, b.e)])
    if ta is Vec:
        if len(a.e) != len(b.e):
            raise Unmergeable('vec len')
        return Vec([ite_value(c, x, y) for x, y in zip(a.e, b.e)])
    if ta is Enum:
        if a.ty != b.ty:
            raise Unmergeable('enum type')
        if a.ty == 'Option' and (a.variant != b.variant or a.variant is None):
            return merge_options(c, a, b)
        if a.variant is not None and a.variant == b.variant:
            if len(a.f) != len(b.f):
                raise Unmergeable('enum arity')
            return Enum(a.ty, a.variant, [ite_value(c, x, y) for x, y in zip(a.f, b.f)], discr=a.discr)
        if not a.f and not b.f:
            da, db = enum_discr_bv(a), enum_discr_bv(b)
            if da is not None and db is not None:
                return Enum(a.ty, None, (), discr=z3.If(c, da, db))
        raise Unmergeable('enum variants %s/%s' % (a.variant, b.variant))
    if ta is Box:
        return Box(ite_value(c, a.v, b.v))
    if ta is StrLit:
        if a.s == b.s:
            return a
        raise Unmergeable('strlit')
    if ta is Ref:
        if a.base == b.base and a.projs == b.projs:
            return a
        raise Unmergeable('ref')
    if ta is RString:
        if len(a.segs) == len(b.segs) and all(_seg_eq(x, y) for x, y in zip(a.segs, b.segs)):
            return a
        raise Unmergeable('string')
    if ta is Opaque:
        if a.kind == b.kind and _opaque_eq(a.p, b.p):
            return a
        raise Unmergeable('opaque')
    if ta is Closure or ta is FnDef:
        if a.name == b.name:
            return a
        raise Unmergeable('closure')
    if a is UNINIT or b is UNINIT:
        raise Unmergeable('uninit')
    if ta is BMap:
        if len(a.ents) != len(b.ents):
            raise Unmergeable('map size')
        return BMap([(ite_value(c, ka, kb), ite_value(c, va, vb)) for (ka, va), (kb, vb) in zip(a.ents, b.ents)])
    raise Unmergeable('kind ' + ta.__name__)


ENUM_DEFS = {}      # filled by Program: enum name -> {variant: discr}


def opt_discr(o):
    """64-bit discriminant term of an Option value (0 = None, 1 = Some)"""
    if o.variant == 'None':
        return z3.BitVecVal(0, 64)
    if o.variant == 'Some':
        return z3.BitVecVal(1, 64)
    return o.discr


def merge_options(c, a, b):
    """c ? a : b for Options of differing / symbolic variants: an Option with a symbolic discriminant carrying the
    payload of whichever side is Some."""
    pa = a.f[0] if a.f else None
    pb = b.f[0] if b.f else None
    if pa is None and pb is None:
        return a if a.variant == 'None' else Enum('Option', None, (), discr=z3.If(c, opt_discr(a), opt_discr(b)))
    if pa is None:
        payload = pb
    elif pb is None:
        payload = pa
    else:
        payload = ite_value(c, pa, pb)
    d = z3.simplify(z3.If(c, opt_discr(a), opt_discr(b)))
    if z3.is_bv_value(d):
        return Enum('Option', 'Some', (payload,)) if d.as_long() == 1 else Enum('Option', 'None', ())
    return Enum('Option', None, (payload,), discr=d)


def split_option(o):
    """[(cond, concrete Option)] for an Option with symbolic discriminant"""
    if o.variant is not None:
        return [(True, o)]
    out = [(o.discr == z3.BitVecVal(0, 64), Enum('Option', 'None', ()))]
    if o.f:
        out.append((o.discr == z3.BitVecVal(1, 64), Enum('Option', 'Some', (o.f[0],))))
    return out


def enum_discr_bv(e):
    if e.variant is None:
        return e.discr
    d = ENUM_DEFS.get(e.ty)
    if d is None or e.variant not in d:
        return None
    return z3.BitVecVal(d[e.variant], 64)


def _seg_eq(x, y):
    if x is y:
        return True
    if isinstance(x, str) and isinstance(y, str):
        return x == y
    return False


def _opaque_eq(x, y):
    if x is y:
        return True
    try:
        return bool(x == y) and not is_sym(x)
    except Exception:
        return False


def shape_sig(v, depth=0):
    """Cheap shape signature used to group states before merging."""
    t = type(v)
    if t is Enum:
        if v.ty == 'Option':
            return ('E', 'Option')
        if not v.f:
            return ('E', v.ty)
        return ('E', v.ty, v.variant, tuple(shape_sig(x, depth + 1) for x in v.f))
    if t is Tup:
        return ('T', tuple(shape_sig(x, depth + 1) for x in v.f))
    if t is Struct:
        return ('S', v.ty, tuple(shape_sig(x, depth + 1) for x in v.f))
    if t is Vec:
        return ('V', len(v.e))
    if t is Arr:
        return ('A', len(v.e))
    if t is RString:
        return ('R', id(v))
    if t is StrLit:
        return ('L', v.s)
    if t is Box:
        return ('B', shape_sig(v.v, depth + 1))
    if t is Ref:
        return ('P', v.base, v.projs)
    if t is Opaque:
        return ('O', v.kind, id(v.p) if not isinstance(v.p, (int, str, type(None), tuple)) else repr(v.p))
    if t is BMap:
        return ('M', len(v.ents), tuple(shape_sig(x, depth + 1) for _, x in v.ents))
    return t.__name__
