"""Formatting builtins: format_args! lowering, Formatter, Display dispatch (DESIGN §1.1 builtin 4).

A rendered string is a tuple of segments: literal `str`, ('chars', (Int,..)) or ('val', spec, value) where spec is
e.g. 'display', 'debug', 'lower_hex' plus flags/width/precision: 'display:w6:0' ...
"""
import re
import z3

from .values import *   # noqa
from .execu import ExecError, PanicExc, Call, Choices, Panic, last_seg, type_key
from .builtins import B, mk_ok, mk_err, mk_some, NONE, concrete_usize, generic_args, deref_all, call_fn

FMT_ERR = Struct('FmtError', ())
OK_UNIT = Enum('Result', 'Ok', (UNIT,))

PRIMS = set(INT_TYPES) | set(FLOAT_TYPES) | {'bool', 'str', 'String', 'char'}


def parse_template(raw):
    """bytes -> list of ('lit', str) | ('arg', index or None, flags, width, precision)"""
    out = []
    i = 0
    n = len(raw)
    while i < n:
        b = raw[i]
        if b == 0:
            break
        if b < 0x80:
            out.append(('lit', raw[i + 1:i + 1 + b].decode('utf-8')))
            i += 1 + b
            continue
        if b == 0x80:
            ln = raw[i + 1] | (raw[i + 2] << 8)
            out.append(('lit', raw[i + 3:i + 3 + ln].decode('utf-8')))
            i += 3 + ln
            continue
        if b & 0xC0 == 0xC0:
            i += 1
            flags = width = prec = idx = None
            if b & 1:
                flags = int.from_bytes(raw[i:i + 4], 'little')
                i += 4
            if b & 2:
                width = int.from_bytes(raw[i:i + 2], 'little')
                i += 2
            if b & 4:
                prec = int.from_bytes(raw[i:i + 2], 'little')
                i += 2
            if b & 8:
                idx = int.from_bytes(raw[i:i + 2], 'little')
                i += 2
            if b & 0x30:
                raise ExecError('indirect width/precision in format template')
            out.append(('arg', idx, flags, width, prec))
            continue
        raise ExecError('bad format template byte %#x' % b)
    return out


def bytes_of(ex, st, v):
    v = deref_all(ex, st, v)
    return bytes(e.v for e in v.e)


@B.path('Arguments::new')
def arguments_new(ex, st, info, args):
    tmpl = parse_template(bytes_of(ex, st, args[0]))
    argv = deref_all(ex, st, args[1])
    return Opaque('fmtargs', (tuple(tmpl), tuple(argv.e)))


@B.path('Arguments::from_str', 'Arguments::from_str_nonconst', 'Arguments::new_const')
def arguments_from_str(ex, st, info, args):
    s = deref_all(ex, st, args[0])
    if isinstance(s, Arr):
        s = StrLit(''.join(x.s for x in s.e))
    return Opaque('fmtargs', ((('lit', s.s),) if s.s else (), ()))


def _mk_argument(kind):
    def f(ex, st, info, args):
        ty = generic_args(info['generics'])[0] if info['generics'] else '?'
        return Opaque('fmtarg', (kind, ty.strip(), args[0]))
    return f


for _k in ('display', 'debug', 'lower_hex', 'upper_hex', 'octal', 'binary', 'lower_exp', 'upper_exp', 'pointer'):
    B.paths['Argument::new_' + _k] = _mk_argument(_k)


def sink_append(ex, st, fref, seg):
    """Append a segment to the sink behind a &mut Formatter / &mut String."""
    f = ex.read_ref(st, fref)
    if isinstance(f, RString):
        ex.builtins_alloc(st, len(seg) if isinstance(seg, str) else 8)
        ex.write_ref(st, fref, RString(join_segs(f.segs, seg)))
        return
    if isinstance(f, Struct) and f.ty == 'Formatter':
        sink = f.f[0]
        s = ex.read_ref(st, sink)
        ex.builtins_alloc(st, len(seg) if isinstance(seg, str) else 8)
        ex.write_ref(st, sink, RString(join_segs(s.segs, seg)))
        return
    raise ExecError('write to non-formatter %r' % (f,))


def join_segs(segs, seg):
    if isinstance(seg, str):
        if not seg:
            return segs
        if segs and isinstance(segs[-1], str):
            return segs[:-1] + (segs[-1] + seg,)
    return segs + (seg,)


def formatter_spec(ex, st, fref):
    f = ex.read_ref(st, fref)
    if isinstance(f, Struct) and f.ty == 'Formatter':
        return f.f[1]
    return ''


def write_args(ex, st, fref, fa, k):
    """Render fmt::Arguments into the sink; k(st, Result<(),fmt::Error>)."""
    tmpl, argv = fa.p
    nexti = [0]

    def step(st2, i, nxt):
        if i == len(tmpl):
            return k(st2, OK_UNIT)
        piece = tmpl[i]
        if piece[0] == 'lit':
            sink_append(ex, st2, fref, piece[1])
            return step(st2, i + 1, nxt)
        _, idx, flags, width, prec = piece
        if idx is None:
            idx = nxt
        nxt2 = idx + 1 if piece[1] is None else nxt
        a = argv[idx]
        kind, ty, vref = a.p
        spec = kind
        if flags is not None:
            spec += ':f%#x' % flags
        if width is not None:
            spec += ':w%d' % width
        if prec is not None:
            spec += ':p%d' % prec

        def after(st3, res):
            if res.variant == 'Err':
                return k(st3, res)
            return step(st3, i + 1, nxt2)
        return fmt_value(ex, st2, fref, spec, ty, vref, after)
    return step(st, 0, 0)


def fmt_value(ex, st, fref, spec, ty, vref, k):
    """Format one argument: user Display/Debug impls are interpreted, primitives become value segments."""
    kind = spec.split(':')[0]
    t = ty
    v = vref
    # strip reference layers of the static type, dereferencing the value alongside
    while t.startswith('&'):
        t = t[1:].strip()
        if t.startswith('mut '):
            t = t[4:]
        v = ex.read_ref(st, v) if isinstance(v, Ref) else v
    tk = type_key(t)
    if tk not in PRIMS:
        trait = 'Display' if kind == 'display' else ('Debug' if kind == 'debug' else None)
        name = ex.prog.find_method(tk, trait, 'fmt') if trait else None
        if name is not None:
            mods = spec[len(kind):]
            if mods and kind == 'display':
                raise ExecError('width/flags on a user Display impl: ' + spec)
            if kind == 'display':
                vr = v if isinstance(v, Ref) else Ref(('V', v))
                return Call(ex.prog.items[name], [vr, fref], k)
            # Debug of user types: kept opaque (derived Debug is not the subject of any property)
    val = ex.read_ref(st, v) if isinstance(v, Ref) else v
    if spec == 'display' and isinstance(val, RString):
        for seg in val.segs:
            sink_append(ex, st, fref, seg)
        return k(st, OK_UNIT)
    if spec == 'display' and isinstance(val, StrLit):
        sink_append(ex, st, fref, val.s)
        return k(st, OK_UNIT)
    sink_append(ex, st, fref, ('val', spec, val))
    return k(st, OK_UNIT)


@B.path('Formatter::write_fmt')
def formatter_write_fmt(ex, st, info, args):
    return write_args(ex, st, args[0], args[1], lambda st2, r: r)


@B.trait('Write', 'write_fmt')
def write_write_fmt(ex, st, info, args):
    return write_args(ex, st, args[0], args[1], lambda st2, r: r)


@B.path('Formatter::write_str')
def formatter_write_str(ex, st, info, args):
    s = deref_all(ex, st, args[1])
    if isinstance(s, StrLit):
        sink_append(ex, st, args[0], s.s)
    elif isinstance(s, RString):
        for seg in s.segs:
            sink_append(ex, st, args[0], seg)
    else:
        raise ExecError('write_str of %r' % (s,))
    return OK_UNIT


@B.trait('Write', 'write_str')
def write_write_str(ex, st, info, args):
    return formatter_write_str(ex, st, info, args)


@B.trait('Write', 'write_char')
def write_write_char(ex, st, info, args):
    c = args[1]
    if c.concrete:
        sink_append(ex, st, args[0], chr(c.v))
    else:
        sink_append(ex, st, args[0], ('chars', (c,)))
    return OK_UNIT


@B.path('fmt::format', 'format')
def fmt_format(ex, st, info, args):
    """alloc::fmt::format(Arguments) -> String"""
    cell = st.new_cell(RString(()))
    sref = Ref(('C', cell), (), True)

    def done(st2, r):
        s = st2.cells[cell]
        del st2.cells[cell]
        if r.variant == 'Err':
            return Panic('a formatting trait implementation returned an error')
        return s
    return write_args(ex, st, sref, args[0], done)


@B.trait('ToString', 'to_string', lambda info: type_key(info['selfty']) not in ('str', 'String'))
def to_string_generic(ex, st, info, args):
    ty = info['selfty'].strip()
    cell = st.new_cell(RString(()))
    fcell = st.new_cell(Struct('Formatter', (Ref(('C', cell), (), True), '')))
    fref = Ref(('C', fcell), (), True)

    def done(st2, r):
        s = st2.cells[cell]
        del st2.cells[cell]
        del st2.cells[fcell]
        if r.variant == 'Err':
            return Panic('a Display implementation returned an error unexpectedly')
        return s
    return fmt_value(ex, st, fref, 'display', ty, args[0], done)


@B.trait('Display', 'fmt', lambda info: type_key(info['selfty']) in PRIMS)
def display_prim(ex, st, info, args):
    v = deref_all(ex, st, args[0])
    if isinstance(v, StrLit):
        sink_append(ex, st, args[1], v.s)
    elif isinstance(v, RString):
        for seg in v.segs:
            sink_append(ex, st, args[1], seg)
    else:
        sink_append(ex, st, args[1], ('val', 'display', v))
    return OK_UNIT


def _debug_finish(ex, st, info, args):
    sink_append(ex, st, args[0], ('val', 'debug-derive', None))
    return OK_UNIT


for _n in ('debug_tuple_field1_finish', 'debug_tuple_field2_finish', 'debug_struct_field1_finish',
           'debug_struct_field2_finish', 'debug_struct_field3_finish', 'debug_struct_field4_finish',
           'debug_struct_field5_finish', 'debug_struct_fields_finish', 'debug_tuple_fields_finish'):
    B.paths['Formatter::' + _n] = _debug_finish
