"""Encoder validation against the real build: run witness frames through the native replay driver and compare the
decoded value trees (names of struct fields are not compared, only structure and values)."""
import json
import os
import subprocess
import z3

from .values import *   # noqa

CACHE = os.environ.get('VERIF_CACHE', '/verif/.cache')
REPLAY_DIR = os.path.join(os.path.dirname(os.path.dirname(os.path.abspath(__file__))), 'replay')


class NativeError(Exception):
    pass


_built = {}


def build_replay(profile='debug'):
    """(Re)build the replay driver against /repo's working tree."""
    if _built.get(profile):
        return _built[profile]
    tgt = os.path.join(CACHE, 'target-replay')
    os.makedirs(tgt, exist_ok=True)
    env = dict(os.environ)
    env['CARGO_TARGET_DIR'] = tgt
    env['CARGO_NET_OFFLINE'] = 'true'
    lock_src = os.path.join(os.environ.get('VERIF_REPO', '/repo'), 'Cargo.lock')
    cmd = ['cargo', 'build', '--offline']
    if profile == 'release':
        cmd.append('--release')
    p = subprocess.run(cmd, cwd=REPLAY_DIR, env=env, stdout=subprocess.PIPE, stderr=subprocess.PIPE, text=True)
    if p.returncode != 0:
        raise NativeError('replay build failed:\n' + p.stderr[-3000:])
    path = os.path.join(tgt, profile, 'replay')
    _built[profile] = path
    return path


def native(requests, profile='debug'):
    """requests: list of command lines -> list of dicts"""
    exe = build_replay(profile)
    p = subprocess.run([exe], input='\n'.join(requests) + '\n', stdout=subprocess.PIPE, stderr=subprocess.PIPE,
                       text=True)
    if p.returncode != 0:
        raise NativeError('replay driver failed: ' + p.stderr[-2000:])
    out = [json.loads(l) for l in p.stdout.splitlines() if l.strip()]
    if len(out) != len(requests):
        raise NativeError('replay driver answered %d of %d requests' % (len(out), len(requests)))
    return out


# --------------------------------------------------------------------------------- Debug text -> tree
def debug_parse(s):
    t, i = _dp(s, 0)
    if s[i:].strip():
        raise ValueError('trailing debug text: ' + s[i:i + 40])
    return t


def _ws(s, i):
    while i < len(s) and s[i] in ' \n\t':
        i += 1
    return i


def _dp(s, i):
    i = _ws(s, i)
    c = s[i]
    if c == '"':
        j = i + 1
        out = []
        while s[j] != '"':
            if s[j] == '\\':
                j += 1
                out.append({'n': '\n', 't': '\t', '\\': '\\', '"': '"', "'": "'", '0': '\0'}.get(s[j], s[j]))
            else:
                out.append(s[j])
            j += 1
        return ('str', ''.join(out)), j + 1
    if c == '[':
        items, j = _dlist(s, i + 1, ']')
        return ('list', items), j
    if c == '(':
        items, j = _dlist(s, i + 1, ')')
        return ('node', '', items), j
    # number / ident
    j = i
    while j < len(s) and (s[j].isalnum() or s[j] in '_.-+:'):
        j += 1
    tok = s[i:j]
    if not tok:
        raise ValueError('bad debug text at %d: %r' % (i, s[i:i + 30]))
    if tok[0].isdigit() or (tok[0] in '-+' and len(tok) > 1 and tok[1].isdigit()) or tok in ('NaN', 'inf', '-inf'):
        try:
            if any(ch in tok for ch in '.eE') or tok in ('NaN', 'inf', '-inf'):
                return ('num', float(tok)), j
            return ('num', int(tok)), j
        except ValueError:
            pass
    if tok == 'true':
        return ('bool', True), j
    if tok == 'false':
        return ('bool', False), j
    k = _ws(s, j)
    if k < len(s) and s[k] == '(':
        items, e = _dlist(s, k + 1, ')')
        return ('node', tok, items), e
    if k < len(s) and s[k] == '{':
        # named fields
        items = []
        k = _ws(s, k + 1)
        while s[k] != '}':
            e = s.index(':', k)
            v, k = _dp(s, e + 1)
            items.append(v)
            k = _ws(s, k)
            if s[k] == ',':
                k = _ws(s, k + 1)
        return ('node', tok, items), k + 1
    return ('node', tok, []), j


def _dlist(s, i, close):
    items = []
    i = _ws(s, i)
    while s[i] != close:
        v, i = _dp(s, i)
        items.append(v)
        i = _ws(s, i)
        if s[i] == ',':
            i = _ws(s, i + 1)
    return items, i + 1


# --------------------------------------------------------------------------------- mirsym value -> tree
def ev_int(model, v, signed=False):
    if isinstance(v, int):
        return v
    r = model.eval(v, model_completion=True)
    x = r.as_long()
    if signed and x >> (r.size() - 1):
        x -= 1 << r.size()
    return x


def value_tree(v, model, prog=None):
    if isinstance(v, Int):
        w, s = INT_TYPES[v.ty]
        x = ev_int(model, v.v, s) if not isinstance(v.v, int) else v.v
        return ('num', x)
    if isinstance(v, bool):
        return ('bool', v)
    if isinstance(v, z3.BoolRef):
        return ('bool', z3.is_true(model.eval(v, model_completion=True)))
    if isinstance(v, Flt):
        if isinstance(v.v, float):
            return ('num', v.v)
        r = model.eval(v.v, model_completion=True)
        return ('num', fp_to_float(r))
    if isinstance(v, Struct):
        return ('node', v.ty, [value_tree(x, model, prog) for x in v.f])
    if isinstance(v, Tup):
        return ('node', '', [value_tree(x, model, prog) for x in v.f])
    if isinstance(v, Enum):
        if v.variant is None and v.ty == 'Option':
            d = ev_int(model, v.discr, True)
            if d == 1 and v.f:
                return ('node', 'Some', [value_tree(v.f[0], model, prog)])
            return ('node', 'None', [])
        if v.variant is None:
            d = ev_int(model, v.discr, True)
            name = None
            if prog is not None:
                for n, k in prog.src.enums.get(v.ty, {}).items():
                    if k == d:
                        name = n
            return ('node', name or ('?%d' % d), [])
        return ('node', v.variant, [value_tree(x, model, prog) for x in v.f])
    if isinstance(v, (Arr, Vec)):
        return ('list', [value_tree(x, model, prog) for x in v.e])
    if isinstance(v, RString):
        return ('str', render_string(v, model))
    if isinstance(v, StrLit):
        return ('str', v.s)
    if isinstance(v, Box):
        return value_tree(v.v, model, prog)
    if isinstance(v, Opaque):
        return ('opaque', v.kind)
    raise ValueError('value_tree of %r' % (v,))


def fp_to_float(r):
    import struct
    if z3.is_fp_value(r) or z3.is_fp(r):
        r = z3.simplify(r)
        if r.isNaN():
            return float('nan')
        if r.isInf():
            return float('-inf') if r.isNegative() else float('inf')
        bv = z3.simplify(z3.fpToIEEEBV(r))
        bits = bv.as_long()
        if bv.size() == 64:
            return struct.unpack('<d', struct.pack('<Q', bits))[0]
        return struct.unpack('<f', struct.pack('<I', bits))[0]
    raise ValueError('not an fp value: %r' % (r,))


def render_string(s, model):
    """Render an RString whose segments are literals / chars; value segments need Rust formatting and are
    rendered approximately for the common specs."""
    out = []
    for seg in s.segs:
        if isinstance(seg, str):
            out.append(seg)
        elif seg[0] == 'chars':
            for c in seg[1]:
                out.append(chr(ev_int(model, c.v) if not isinstance(c.v, int) else c.v))
        else:
            out.append(render_val(seg[1], seg[2], model))
    return ''.join(out)


def render_val(spec, v, model):
    parts = spec.split(':')
    kind = parts[0]
    flags = 0
    width = None
    prec = None
    for p in parts[1:]:
        if p.startswith('f'):
            flags = int(p[1:], 16)
        elif p.startswith('w'):
            width = int(p[1:])
        elif p.startswith('p'):
            prec = int(p[1:])
    if isinstance(v, (RString,)):
        return render_string(v, model)
    if isinstance(v, StrLit):
        return v.s
    if isinstance(v, Int):
        w, s = INT_TYPES[v.ty]
        x = ev_int(model, v.v, s) if not isinstance(v.v, int) else v.v
        debug_hex = bool(flags & (1 << 25))      # DebugLowerHex flag
        if kind == 'lower_hex' or (kind == 'debug' and debug_hex):
            body = '%x' % (x & ((1 << w) - 1))
        else:
            body = str(x)
        zero = bool(flags & (1 << 24))           # SignAwareZeroPad
        if width is not None and len(body) < width:
            body = ('0' if zero else ' ') * (width - len(body)) + body if zero else body.rjust(width)
        return body
    if isinstance(v, Flt):
        x = v.v if isinstance(v.v, float) else fp_to_float(model.eval(v.v, model_completion=True))
        return rust_float(x, v.ty)
    if isinstance(v, bool):
        return 'true' if v else 'false'
    if isinstance(v, z3.BoolRef):
        return 'true' if z3.is_true(model.eval(v, model_completion=True)) else 'false'
    if isinstance(v, Enum) and v.ty == 'Option' and kind == 'debug':
        if v.variant == 'None':
            return 'None'
        return 'Some(%s)' % render_val(spec, v.f[0], model)
    return '<%s>' % kind


def rust_float(x, ty):
    import math
    if x != x:
        return 'NaN'
    if math.isinf(x):
        return 'inf' if x > 0 else '-inf'
    if ty == 'f32':
        import struct
        # shortest repr that round-trips through f32
        for p in range(1, 12):
            s = '%.*g' % (p, x)
            if struct.unpack('<f', struct.pack('<f', float(s)))[0] == x:
                break
        r = repr(float(s))
    else:
        r = repr(x)
    if 'e' in r or 'E' in r:
        # Rust's Display for floats never uses exponent form
        from decimal import Decimal
        r = format(Decimal(r), 'f')
    if r.endswith('.0'):
        r = r[:-2]
    return r


def tree_equal(a, b, path=''):
    """Compare trees; returns None if equal else a description of the first difference."""
    if a[0] == 'opaque' or b[0] == 'opaque':
        return None
    if a[0] != b[0]:
        # ICAO([..]) vs list etc.
        return '%s: kind %s vs %s (%r / %r)' % (path, a[0], b[0], a, b)
    if a[0] == 'num':
        x, y = a[1], b[1]
        if isinstance(x, float) or isinstance(y, float):
            fx, fy = float(x), float(y)
            if fx == fy or (fx != fx and fy != fy):
                return None
            try:
                if f32_round(fx) == f32_round(fy):
                    return None
            except OverflowError:
                pass
            return '%s: %r vs %r' % (path, x, y)
        return None if x == y else '%s: %r vs %r' % (path, x, y)
    if a[0] in ('bool', 'str'):
        return None if a[1] == b[1] else '%s: %r vs %r' % (path, a[1], b[1])
    if a[0] == 'list':
        if len(a[1]) != len(b[1]):
            return '%s: list len %d vs %d' % (path, len(a[1]), len(b[1]))
        for i, (x, y) in enumerate(zip(a[1], b[1])):
            d = tree_equal(x, y, '%s[%d]' % (path, i))
            if d:
                return d
        return None
    if a[0] == 'node':
        if a[1] != b[1] and a[1] and b[1]:
            return '%s: node %s vs %s' % (path, a[1], b[1])
        if len(a[2]) != len(b[2]):
            return '%s/%s: arity %d vs %d' % (path, a[1], len(a[2]), len(b[2]))
        for i, (x, y) in enumerate(zip(a[2], b[2])):
            d = tree_equal(x, y, '%s/%s.%d' % (path, a[1], i))
            if d:
                return d
        return None
    return None
