"""Facts the MIR dump does not carry, read from the Rust sources of /repo at run time:
   * enum definitions (variant order and explicit discriminants),
   * for each `<impl at file:l:c: l:c>` span: the trait implemented and the Self type.
"""
import os
import re

STD_ENUMS = {
    'Result': {'Ok': 0, 'Err': 1},
    'Option': {'None': 0, 'Some': 1},
    'ControlFlow': {'Continue': 0, 'Break': 1},
    'Ordering': {'Less': -1, 'Equal': 0, 'Greater': 1},
    'Entry': {'Vacant': 0, 'Occupied': 1},
    'Cow': {'Borrowed': 0, 'Owned': 1},
    'DekuError': {'Incomplete': 0, 'Parse': 1, 'InvalidParam': 2, 'Assertion': 3, 'AssertionNoStr': 4,
                  'IdVariantNotFound': 5, 'Io': 6},
    'Endian': {'Little': 0, 'Big': 1},
    'ReaderRet': {'Bytes': 0, 'Bits': 1},
    'SeekFrom': {'Start': 0, 'End': 1, 'Current': 2},
    'Bound': {'Included': 0, 'Excluded': 1, 'Unbounded': 2},
}
BARE_VARIANTS = {}
for _e in ('DekuError', 'Endian', 'ReaderRet'):
    for _v in STD_ENUMS[_e]:
        BARE_VARIANTS[_v] = _e


def strip_comments(src):
    out = []
    i = 0
    n = len(src)
    while i < n:
        c = src[i]
        if src.startswith('//', i):
            j = src.find('\n', i)
            if j < 0:
                j = n
            i = j
            continue
        if src.startswith('/*', i):
            depth = 1
            i += 2
            while i < n and depth:
                if src.startswith('/*', i):
                    depth += 1
                    i += 2
                elif src.startswith('*/', i):
                    depth -= 1
                    i += 2
                else:
                    if src[i] == '\n':
                        out.append('\n')
                    i += 1
            continue
        if c == '"':
            j = i + 1
            while j < n and src[j] != '"':
                if src[j] == '\\':
                    j += 1
                j += 1
            out.append(src[i:j + 1])
            i = j + 1
            continue
        out.append(c)
        i += 1
    return ''.join(out)


def _match_brace(s, i):
    depth = 0
    while i < len(s):
        c = s[i]
        if c == '"':
            j = i + 1
            while s[j] != '"':
                if s[j] == '\\':
                    j += 1
                j += 1
            i = j + 1
            continue
        if c in '{([':
            depth += 1
        elif c in '})]':
            depth -= 1
            if depth == 0:
                return i
        i += 1
    raise ValueError('unbalanced braces')


def _split_commas(s):
    out = []
    depth = 0
    start = 0
    i = 0
    while i < len(s):
        c = s[i]
        if c == '"':
            j = i + 1
            while s[j] != '"':
                if s[j] == '\\':
                    j += 1
                j += 1
            i = j + 1
            continue
        if c in '{([<':
            depth += 1
        elif c in '})]>':
            depth -= 1
        elif c == ',' and depth == 0:
            out.append(s[start:i])
            start = i + 1
        i += 1
    out.append(s[start:])
    return [x.strip() for x in out if x.strip()]


def _strip_attrs(s):
    # remove leading #[...] attributes
    while True:
        s = s.lstrip()
        if s.startswith('#['):
            j = _match_brace(s, 1)
            s = s[j + 1:]
        else:
            return s


def parse_int_lit(t):
    t = t.strip().replace('_', '')
    t = re.sub(r'(u8|u16|u32|u64|usize|i8|i16|i32|i64|isize)$', '', t)
    neg = t.startswith('-')
    if neg:
        t = t[1:]
    if t.startswith('0x'):
        v = int(t, 16)
    elif t.startswith('0b'):
        v = int(t[2:], 2)
    elif t.startswith('0o'):
        v = int(t[2:], 8)
    else:
        v = int(t)
    return -v if neg else v


def parse_enums(src):
    """-> dict name -> {variant: discr} (ordered)"""
    s = strip_comments(src)
    out = {}
    for m in re.finditer(r'\benum\s+([A-Za-z_][A-Za-z_0-9]*)\s*(<[^{]*>)?\s*\{', s):
        name = m.group(1)
        start = m.end() - 1
        end = _match_brace(s, start)
        body = s[start + 1:end]
        variants = {}
        nxt = 0
        for part in _split_commas(body):
            part = _strip_attrs(part)
            mm = re.match(r'^([A-Za-z_][A-Za-z_0-9]*)', part)
            if not mm:
                continue
            vname = mm.group(1)
            rest = part[mm.end():]
            # skip payload
            rest = rest.lstrip()
            if rest.startswith('(') or rest.startswith('{'):
                j = _match_brace(rest, 0)
                rest = rest[j + 1:].lstrip()
            if rest.startswith('='):
                nxt = parse_int_lit(rest[1:])
            variants[vname] = nxt
            nxt += 1
        out[name] = variants
    return out


ACTIVE_FEATURES = {'std', 'alloc'}


def _cfg_enabled(part):
    """evaluate leading #[cfg(feature = "x")] / #[cfg(not(feature = "x"))] attributes of a field"""
    s = part.lstrip()
    while s.startswith('#['):
        j = _match_brace(s, 1)
        attr = s[2:j]
        m = re.match(r'^\s*cfg\(\s*feature\s*=\s*"([^"]+)"\s*\)\s*$', attr)
        if m and m.group(1) not in ACTIVE_FEATURES:
            return False
        m = re.match(r'^\s*cfg\(\s*not\(\s*feature\s*=\s*"([^"]+)"\s*\)\s*\)\s*$', attr)
        if m and m.group(1) in ACTIVE_FEATURES:
            return False
        s = s[j + 1:].lstrip()
    return True


def _field_names(body):
    names = []
    for part in _split_commas(body):
        if not _cfg_enabled(part):
            continue
        part = _strip_attrs(part)
        part = re.sub(r'^pub(\([^)]*\))?\s+', '', part)
        mm = re.match(r'^([A-Za-z_][A-Za-z_0-9]*)\s*:', part)
        if mm:
            names.append(mm.group(1))
    return names


def _field_decls(body):
    """[(name, type text, attribute text)] of a named-field body"""
    out = []
    for part in _split_commas(body):
        if not _cfg_enabled(part):
            continue
        attrs = part[:len(part) - len(_strip_attrs(part))]
        part = _strip_attrs(part)
        part = re.sub(r'^pub(\([^)]*\))?\s+', '', part)
        mm = re.match(r'^([A-Za-z_][A-Za-z_0-9]*)\s*:\s*(.*)$', part, re.S)
        if mm:
            out.append((mm.group(1), ' '.join(mm.group(2).split()), attrs))
    return out


PAYLOAD_ENUMS = set()


def parse_field_types(src):
    """-> (struct name -> [(field, type, attrs)], (enum, variant) -> [(field, type, attrs)], tuple struct -> [types])"""
    s = strip_comments(src)
    st, vf, ts = {}, {}, {}
    for m in re.finditer(r'\bstruct\s+([A-Za-z_][A-Za-z_0-9]*)\s*(<[^{(;]*>)?\s*(where[^{]*)?\{', s):
        start = m.end() - 1
        end = _match_brace(s, start)
        st[m.group(1)] = _field_decls(s[start + 1:end])
    for m in re.finditer(r'\bstruct\s+([A-Za-z_][A-Za-z_0-9]*)\s*\(', s):
        start = m.end() - 1
        end = _match_brace(s, start)
        tys = []
        for part in _split_commas(s[start + 1:end]):
            part = _strip_attrs(part)
            part = re.sub(r'^pub(\([^)]*\))?\s+', '', part).strip()
            if part:
                tys.append(' '.join(part.split()))
        ts[m.group(1)] = tys
    for m in re.finditer(r'\benum\s+([A-Za-z_][A-Za-z_0-9]*)\s*(<[^{]*>)?\s*\{', s):
        start = m.end() - 1
        end = _match_brace(s, start)
        for part in _split_commas(s[start + 1:end]):
            part = _strip_attrs(part)
            mm = re.match(r'^([A-Za-z_][A-Za-z_0-9]*)\s*\{', part)
            if mm:
                j = _match_brace(part, mm.end() - 1)
                vf[(m.group(1), mm.group(1))] = _field_decls(part[mm.end():j])
            if re.match(r'^([A-Za-z_][A-Za-z_0-9]*)\s*[({]', part):
                PAYLOAD_ENUMS.add(m.group(1))
    return st, vf, ts


def parse_structs(src):
    """-> (structs: name -> [field names] (named structs only), variant_fields: (enum, variant) -> [names])"""
    s = strip_comments(src)
    structs = {}
    for m in re.finditer(r'\bstruct\s+([A-Za-z_][A-Za-z_0-9]*)\s*(<[^{(;]*>)?\s*(where[^{]*)?\{', s):
        start = m.end() - 1
        end = _match_brace(s, start)
        structs[m.group(1)] = _field_names(s[start + 1:end])
    vfields = {}
    for m in re.finditer(r'\benum\s+([A-Za-z_][A-Za-z_0-9]*)\s*(<[^{]*>)?\s*\{', s):
        start = m.end() - 1
        end = _match_brace(s, start)
        for part in _split_commas(s[start + 1:end]):
            part = _strip_attrs(part)
            mm = re.match(r'^([A-Za-z_][A-Za-z_0-9]*)\s*\{', part)
            if mm:
                j = _match_brace(part, mm.end() - 1)
                vfields[(m.group(1), mm.group(1))] = _field_names(part[mm.end():j])
    return structs, vfields


class SourceInfo:
    def __init__(self, root, features=('std', 'alloc')):
        global ACTIVE_FEATURES
        ACTIVE_FEATURES = set(features)
        self.features = set(features)
        self.root = root
        self.files = {}
        self.enums = dict(STD_ENUMS)
        self.structs = {}
        self.vfields = {}
        self.ftypes = {}        # struct -> [(field, type, attrs)]
        self.vftypes = {}       # (enum, variant) -> [(field, type, attrs)]
        self.tstructs = {}      # tuple struct -> [types]
        self.payload_enums = set()
        self.impl_cache = {}

    def load_crate(self, reldir):
        global ACTIVE_FEATURES
        ACTIVE_FEATURES = set(self.features)
        d = os.path.join(self.root, reldir, 'src')
        for fn in sorted(os.listdir(d)):
            if fn.endswith('.rs'):
                p = os.path.join(d, fn)
                txt = open(p).read()
                self.files[os.path.join(reldir, 'src', fn)] = txt
                for k, v in parse_enums(txt).items():
                    self.enums[k] = v
                st, vf = parse_structs(txt)
                self.structs.update(st)
                self.vfields.update(vf)
                try:
                    a, b, c = parse_field_types(txt)
                    self.ftypes.update(a)
                    self.vftypes.update(b)
                    self.tstructs.update(c)
                    self.payload_enums = set(PAYLOAD_ENUMS)
                except Exception:      # noqa  (type facts are optional: only the tracker's symbolic frames use them)
                    pass

    def span_text(self, file, l1, c1, l2, c2):
        txt = self.files.get(file)
        if txt is None:
            p = os.path.join(self.root, file)
            if not os.path.exists(p):
                return None
            txt = open(p).read()
            self.files[file] = txt
        lines = txt.split('\n')
        if l1 == l2:
            return lines[l1 - 1][c1 - 1:c2 - 1]
        parts = [lines[l1 - 1][c1 - 1:]] + lines[l1:l2 - 1] + [lines[l2 - 1][:c2 - 1]]
        return '\n'.join(parts)

    def impl_info(self, span):
        """span: 'file:l1:c1: l2:c2' -> (trait or None, selfty)"""
        r = self.impl_cache.get(span)
        if r is not None:
            return r
        m = re.match(r'^(.*):(\d+):(\d+): (\d+):(\d+)$', span)
        if not m:
            raise ValueError('bad span ' + span)
        file, l1, c1, l2, c2 = m.group(1), int(m.group(2)), int(m.group(3)), int(m.group(4)), int(m.group(5))
        text = self.span_text(file, l1, c1, l2, c2)
        if text is None:
            r = (None, None)
        elif text.lstrip().startswith('impl'):
            t = re.sub(r'\s+', ' ', text.strip())
            t = re.sub(r'^impl\s*(<[^>]*(?:<[^>]*>[^>]*)*>)?\s*', '', t)
            if ' for ' in t:
                tr, ty = t.split(' for ', 1)
            else:
                tr, ty = None, t
            r = (_last_seg(tr) if tr else None, _last_seg(ty))
        else:
            # derive macro name; Self type = next struct/enum after this line
            trait = text.strip().split('::')[-1]
            lines = self.files[file].split('\n')
            selfty = None
            for ln in lines[l1 - 1:]:
                mm = re.search(r'\b(struct|enum|union)\s+([A-Za-z_][A-Za-z_0-9]*)', ln)
                if mm and not ln.lstrip().startswith('//') and not ln.lstrip().startswith('#'):
                    selfty = mm.group(2)
                    break
            r = (trait, selfty)
        self.impl_cache[span] = r
        return r


def _last_seg(t):
    t = t.strip()
    # strip generics
    depth = 0
    out = []
    for c in t:
        if c == '<':
            depth += 1
        elif c == '>':
            depth -= 1
        elif depth == 0:
            out.append(c)
    t = ''.join(out).strip()
    t = t.split(' where ')[0].strip().rstrip('{').strip()
    return t.split('::')[-1]
