"""Path-forking, state-merging symbolic executor over rustc MIR (see DESIGN.md §1.1)."""
import os
import re
import sys
import time
import z3

from . import mirparse as mp
from .values import *   # noqa
from .rustsrc import SourceInfo, BARE_VARIANTS

sys.setrecursionlimit(20000)


class ExecError(Exception):
    """The encoder cannot continue (unknown callee, unsupported construct).  Never a verdict."""


class PanicExc(Exception):
    def __init__(self, msg):
        Exception.__init__(self, msg)
        self.msg = msg


# results a builtin may return instead of a plain value -----------------------------------------
class Call:
    """Ask the executor to call `callee` (text or Fn or ('dyn', trait, method)) with args, then continue with k(st, ret)."""
    __slots__ = ('callee', 'args', 'k')

    def __init__(self, callee, args, k):
        self.callee = callee
        self.args = args
        self.k = k


class Choices:
    """Fork: list of (cond, thunk) where thunk(st) -> value | Call | Choices | Panic."""
    __slots__ = ('alts',)

    def __init__(self, alts):
        self.alts = alts


class Panic:
    __slots__ = ('msg',)

    def __init__(self, msg):
        self.msg = msg


class Diverge:
    """The builtin handled control transfer itself (e.g. recorded a leaf)."""


# frames -------------------------------------------------------------------------------------------
class Frame:
    __slots__ = ('fn', 'locals', 'bb', 'si', 'ret')

    def __init__(self, fn, locals_, ret):
        self.fn = fn
        self.locals = locals_
        self.bb = 0
        self.si = 0
        self.ret = ret     # ('mir', dest_place, bb) | ('kont',) | ('top',)

    def clone(self):
        f = Frame(self.fn, dict(self.locals), self.ret)
        f.bb = self.bb
        f.si = self.si
        return f


class Kont:
    __slots__ = ('k', 'ret')

    def __init__(self, k, ret):
        self.k = k
        self.ret = ret

    def clone(self):
        return self          # immutable


class State:
    __slots__ = ('frames', 'pc', 'cells', 'fuel', 'env', 'ncell')

    def __init__(self):
        self.frames = []
        self.pc = []
        self.cells = {}
        self.fuel = 0
        self.env = {}        # immutable-valued dict: counters, clock, schedules
        self.ncell = 0

    def clone(self):
        s = State()
        s.frames = [f.clone() for f in self.frames]
        s.pc = list(self.pc)
        s.cells = dict(self.cells)
        s.fuel = self.fuel
        s.env = dict(self.env)
        s.ncell = self.ncell
        return s

    def new_cell(self, v):
        self.ncell += 1
        self.cells[self.ncell] = v
        return self.ncell


class Leaf:
    __slots__ = ('kind', 'pc', 'value', 'msg', 'env', 'where', 'cells')

    def __init__(self, kind, st, value=None, msg=None, where=None):
        self.kind = kind          # 'return' | 'panic' | 'error'
        self.pc = list(st.pc)
        self.value = value
        self.msg = msg
        self.env = dict(st.env)
        self.where = where
        self.cells = dict(st.cells)

    def __repr__(self):
        return 'Leaf(%s, %s, %s)' % (self.kind, self.msg, self.value)


FUEL_DEFAULT = 400000


class Program:
    """Parsed MIR of one or more crates + source facts."""

    def __init__(self, root='/repo', features=('std', 'alloc')):
        self.items = {}
        self.src = SourceInfo(root, features)
        self.by_last = {}        # last path segment -> [names]
        self.methods = {}        # (selfty, method) -> [(trait, name)]
        self.closures = {}       # closure type text -> fn name
        self.const_cache = {}
        import mirsym.values as _v
        _v.ENUM_DEFS = self.src.enums

    def add_mir(self, text, crate_dir):
        items, order = mp.parse_mir(text)
        self.src.load_crate(crate_dir)
        for name in order:
            f = items[name]
            if name in self.items:
                k = 2
                while '%s#%d' % (name, k) in self.items:
                    k += 1
                f.name = '%s#%d' % (name, k)
            self.items[f.name] = f
            self._index(f)

    def _index(self, f):
        name = f.name
        m = re.search(r'<impl at ([^>]*)>', name)
        tail = name
        if m:
            tail = name[m.end():]
            segs = [s for s in tail.split('::') if s]
            trait, selfty = self.src.impl_info(m.group(1))
            if segs and f.kind == 'fn':
                if len(segs) == 1:
                    self.methods.setdefault((selfty, segs[0]), []).append((trait, name))
        else:
            segs = [s for s in split_path(name) if s]
        if segs:
            self.by_last.setdefault(segs[-1], []).append(name)
        if f.kind == 'fn' and '{closure#' in name and f.args:
            t = f.locals[f.args[0]]
            t = t.lstrip('&').strip()
            if t.startswith('mut '):
                t = t[4:]
            if t.startswith('{closure@'):
                self.closures[normalize_closure(t)] = name

    def find_free_fn(self, path):
        """Resolve a (possibly module/type qualified) non-trait path to an item name."""
        segs = [s for s in split_path(path) if s and not s.startswith('<')]
        if not segs:
            return None
        last = segs[-1]
        cands = self.by_last.get(last, [])
        cands = [c for c in cands if self.items[c].kind in ('fn',)]
        if not cands:
            return None
        if len(segs) >= 2 and segs[-2][:1].isupper():
            # Type::method  -> inherent impl lookup first
            ty = segs[-2]
            ms = self.methods.get((ty, last))
            if ms:
                inh = [n for t, n in ms if t is None]
                if len(inh) == 1:
                    return inh[0]
                if len(ms) == 1:
                    return ms[0][1]
            return None
        free = [c for c in cands if '<impl at' not in c]
        if len(free) == 1:
            return free[0]
        return None

    def find_method(self, selfty, trait, method):
        ms = self.methods.get((selfty, method))
        if not ms:
            return None
        if len(ms) == 1:
            return ms[0][1]
        if trait:
            tl = last_seg(trait)
            exact = [n for t, n in ms if t == tl]
            if len(exact) == 1:
                return exact[0]
            # derive names differ from trait names for deku
            alias = {'DekuReader': 'DekuRead', 'DekuContainerRead': 'DekuRead', 'DekuEnumExt': 'DekuRead',
                     'TryFrom': 'DekuRead'}
            a = alias.get(tl)
            if a:
                exact = [n for t, n in ms if t == a]
                if len(exact) == 1:
                    return exact[0]
        return None

    def find_const(self, text, cur_fn):
        """Resolve `const PATH` to an item."""
        if 'promoted[' in text:
            m = re.search(r'promoted\[(\d+)\]$', text)
            nm = '%s::promoted[%s]' % (strip_dup_suffix(cur_fn.name), m.group(1))
            if nm in self.items:
                return self.items[nm]
        segs = [s for s in split_path(text) if s]
        last = segs[-1]
        cands = [c for c in self.by_last.get(last, []) if self.items[c].kind in ('const', 'constval', 'static')]
        if len(cands) == 1:
            return self.items[cands[0]]
        best = [c for c in cands if path_suffix_match(c, segs)]
        if len(best) == 1:
            return self.items[best[0]]
        # inside the current function?
        pre = strip_dup_suffix(cur_fn.name) + '::' + last
        if pre in self.items:
            return self.items[pre]
        return None


def strip_dup_suffix(name):
    return re.sub(r'#\d+$', '', name)


def split_path(p):
    """split on top-level '::'"""
    out = []
    depth = 0
    cur = []
    i = 0
    while i < len(p):
        c = p[i]
        if c in '<([{':
            depth += 1
        elif c in '>)]}':
            if not (c == '>' and i > 0 and p[i - 1] in '-='):
                depth -= 1
        if depth == 0 and p.startswith('::', i):
            out.append(''.join(cur))
            cur = []
            i += 2
            continue
        cur.append(c)
        i += 1
    out.append(''.join(cur))
    return out


def last_seg(t):
    segs = [s for s in split_path(t.strip()) if s and not s.startswith('<')]
    if not segs:
        return t
    s = segs[-1]
    i = s.find('<')
    if i > 0:
        s = s[:i]
    return s.strip()


def path_suffix_match(name, segs):
    nsegs = [s for s in split_path(re.sub(r'<impl at [^>]*>', '', name)) if s]
    k = 0
    while k < len(segs) and k < len(nsegs) and nsegs[-1 - k] == segs[-1 - k]:
        k += 1
    return k >= min(len(segs), 2) or k == len(nsegs)


def normalize_closure(t):
    return re.sub(r'\s+', ' ', t.strip())


def strip_lifetimes(t):
    t = re.sub(r"'[a-z_][a-z_0-9]*\s*,\s*", '', t)
    t = re.sub(r"<'[a-z_][a-z_0-9]*>", '', t)
    t = re.sub(r"'[a-z_][a-z_0-9]*\s+", '', t)
    return t


_ty_norm_cache = {}


def type_key(t):
    """Last path segment of a type without generics/refs: 'std::vec::Vec<u8>' -> 'Vec'."""
    r = _ty_norm_cache.get(t)
    if r is None:
        s = t.strip()
        while s.startswith('&') or s.startswith('*'):
            s = s.lstrip('&*').strip()
            if s.startswith('mut '):
                s = s[4:]
            if s.startswith('const '):
                s = s[6:]
            s = re.sub(r"^'[a-z_]+\s+", '', s)
        r = last_seg(s)
        _ty_norm_cache[t] = r
    return r


# ---------------------------------------------------------------------------------------------------
class Executor:
    def __init__(self, prog, builtins, solver_timeout_ms=20000):
        self.prog = prog
        self.builtins = builtins          # object with .lookup(callee_text) -> pyfn or None
        self.solver = z3.Solver()
        self.solver.set('timeout', solver_timeout_ms)
        self.sstack = []                  # ids of asserted conds
        self._alone = z3.Solver()
        self._alone.set('timeout', 3000)
        self._alone_cache = {}
        self._alone_keep = []
        self.leaves = []
        self.stats = {'steps': 0, 'solver_checks': 0, 'solver_s': 0.0, 'forks': 0, 'merges': 0,
                      'fn_calls': {}, 'builtin_calls': {}, 'max_fuel_used': 0, 'unknown': 0}
        self.fuel0 = FUEL_DEFAULT
        self.merge_enabled = True
        self.resolve_cache = {}
        self.trace = bool(os.environ.get('MIRSYM_TRACE'))
        self.mux_cache = {}
        self.concrete_libm = False
        self.overrides = {}               # function name (last path segment) -> builtin replacing it
        self.progress = int(os.environ.get('MIRSYM_PROGRESS', '0'))

    # -------------------------------------------------------------------------------- solver
    def _sync(self, pc):
        ss = self.sstack
        k = 0
        n = min(len(ss), len(pc))
        while k < n and ss[k] is pc[k]:
            k += 1
        for _ in range(len(ss) - k):
            self.solver.pop()
        del ss[k:]
        for c in pc[k:]:
            self.solver.push()
            self.solver.add(c)
            ss.append(c)

    def sat(self, st, cond=None):
        """Is pc ∧ cond satisfiable?  Unknown counts as satisfiable (sound for exploration) and is recorded."""
        if cond is not None:
            if cond is True:
                cond = None
            elif cond is False:
                return False
        self._sync(st.pc)
        t = time.time()
        self.stats['solver_checks'] += 1
        if cond is None:
            r = self.solver.check()
        else:
            r = self.solver.check(cond)
        self.stats['solver_s'] += time.time() - t
        if r == z3.unknown:
            self.stats['unknown'] += 1
            return True
        return r == z3.sat

    def unsat_alone(self, cond):
        """Is cond unsatisfiable on its own (without the path condition)?  Cheap pre-check for overflow / bounds
        assertions whose operands carry their own range information."""
        k = cond.get_id()
        r = self._alone_cache.get(k)
        if r is None:
            t = time.time()
            self._alone.push()
            self._alone.add(cond)
            res = self._alone.check()
            self._alone.pop()
            self.stats['solver_s'] += time.time() - t
            r = (res == z3.unsat)
            self._alone_cache[k] = r
            self._alone_keep.append(cond)
        return r

    def model(self, pc, extra=None):
        s = z3.Solver()
        s.set('timeout', 60000)
        for c in pc:
            s.add(c)
        if extra is not None:
            s.add(extra)
        r = s.check()
        if r == z3.sat:
            return s.model()
        return None

    # -------------------------------------------------------------------------------- entry
    def run(self, fn, args, env=None, pc=None):
        """Explore fn(args) fully.  Returns list of Leaf."""
        st = State()
        st.fuel = self.fuel0
        if env:
            st.env.update(env)
        if pc:
            st.pc = list(pc)
        self.leaves = []
        if isinstance(fn, str):
            f = self.prog.items.get(fn)
            if f is None:
                raise ExecError('no such fn ' + fn)
            fn = f
        self.push_mir_frame(st, fn, args, ('top',))
        out = self.explore(st, [])
        assert not out, 'states stopped without a stop condition'
        return self.leaves

    def run_with_cells(self, fn, args, env=None, pc=None):
        """Like run(), but arguments given as ('cell', value) are placed in a fresh mutable cell and passed as
        `&mut` references; the final cell contents are available in each Leaf's `cells`."""
        st = State()
        st.fuel = self.fuel0
        if env:
            st.env.update(env)
        if pc:
            st.pc = list(pc)
        self.leaves = []
        if isinstance(fn, str):
            fn = self.prog.items[fn]
        real = []
        self.cell_ids = []
        for a in args:
            if isinstance(a, tuple) and len(a) == 2 and a[0] == 'cell':
                cid = st.new_cell(a[1])
                self.cell_ids.append(cid)
                real.append(Ref(('C', cid), (), True))
            else:
                real.append(a)
        self.push_mir_frame(st, fn, real, ('top',))
        out = self.explore(st, [])
        assert not out
        return self.leaves

    def run_builtin_call(self, callee, args, env=None, pc=None):
        """Explore a call given by callee text (may resolve to builtin or MIR)."""
        st = State()
        st.fuel = self.fuel0
        if env:
            st.env.update(env)
        if pc:
            st.pc = list(pc)
        self.leaves = []
        ev = self.invoke(st, callee, args, ('top',), None)
        out = self._after_event(st, ev if ev is not None else ('cont',), [])
        assert not out
        return self.leaves

    def push_mir_frame(self, st, fn, args, ret):
        if len(args) != len(fn.args):
            raise ExecError('arity mismatch calling %s: %d vs %d' % (fn.name, len(args), len(fn.args)))
        loc = {}
        for a, v in zip(fn.args, args):
            loc[a] = v
        st.frames.append(Frame(fn, loc, ret))
        c = self.stats['fn_calls']
        c[fn.name] = c.get(fn.name, 0) + 1

    # -------------------------------------------------------------------------------- exploration
    def explore(self, st, stops):
        """Run st until it reaches one of `stops` [(depth, bb)] or terminates.
        Returns the list of states that reached a stop (terminated ones are recorded in self.leaves)."""
        while True:
            fr = st.frames[-1] if st.frames else None
            if stops and type(fr) is Frame and fr.si == 0:
                d = len(st.frames)
                for sd, sb in stops:
                    if sd == d and sb == fr.bb:
                        return [st]
            try:
                ev = self.step(st)
            except PanicExc as e:
                self.leaves.append(Leaf('panic', st, msg=e.msg, where=self.where(st)))
                return []
            if ev is None:
                continue
            return self._after_event(st, ev, stops)

    def _after_event(self, st, ev, stops):
        kind = ev[0]
        if kind == 'done':
            return []
        if kind == 'cont':
            return self.explore(st, stops)
        if kind == 'fork':
            _, children, join = ev
            self.stats['forks'] += 1
            pre_len = len(st.pc)
            if join is not None and self.merge_enabled and len(children) > 1:
                arrived = []
                passed = []
                for c in children:
                    for r in self.explore(c, stops + [join]):
                        fr = r.frames[-1]
                        if len(r.frames) == join[0] and type(fr) is Frame and fr.bb == join[1] and fr.si == 0:
                            arrived.append(r)
                        else:
                            passed.append(r)
                conts = self.merge_states(arrived, pre_len)
                out = passed
                for c in conts:
                    # step past the stop condition once so that we do not stop at our own join again
                    out += self.explore_from_join(c, stops)
                return out
            out = []
            for c in children:
                out += self.explore(c, stops)
            return out
        raise ExecError('bad event %r' % (ev,))

    def explore_from_join(self, st, stops):
        # the state sits at the start of the join block, which may itself be an outer stop
        fr = st.frames[-1]
        d = len(st.frames)
        for sd, sb in stops:
            if sd == d and sb == fr.bb:
                return [st]
        return self.explore(st, stops)

    def merge_states(self, states, pre_len):
        if len(states) <= 1:
            return states
        accs = []
        for s in states:
            merged = False
            for i, a in enumerate(accs):
                m = self.try_merge(a, s, pre_len)
                if m is not None:
                    accs[i] = m
                    merged = True
                    self.stats['merges'] += 1
                    break
            if not merged:
                accs.append(s)
        return accs

    def try_merge(self, a, b, pre_len):
        r = self._try_merge(a, b, pre_len)
        if r is None and self.trace:
            print('[merge refused] at', self.where(a), file=sys.stderr)
        return r

    def _try_merge(self, a, b, pre_len):
        if len(a.frames) != len(b.frames):
            return None
        if a.cells.keys() != b.cells.keys():
            return None
        if not env_equal(a.env, b.env):
            if self.trace:
                print('[merge env differs]', a.env, b.env, file=sys.stderr)
            return None
        ea = a.pc[pre_len:]
        eb = b.pc[pre_len:]
        for x, y in zip(a.pc[:pre_len], b.pc[:pre_len]):
            if x is not y:
                return None
        ca = z3.And(*ea) if len(ea) > 1 else (ea[0] if ea else z3.BoolVal(True))
        cb = z3.And(*eb) if len(eb) > 1 else (eb[0] if eb else z3.BoolVal(True))
        try:
            newframes = []
            for fa, fb in zip(a.frames, b.frames):
                if type(fa) is not type(fb):
                    return None
                if type(fa) is Kont:
                    if fa is not fb:
                        return None
                    newframes.append(fa)
                    continue
                if fa.fn is not fb.fn or fa.bb != fb.bb or fa.si != fb.si or fa.ret != fb.ret:
                    return None
                la, lb = fa.locals, fb.locals
                nl = {}
                for k in la.keys() | lb.keys():
                    va = la.get(k, UNINIT)
                    vb = lb.get(k, UNINIT)
                    if va is vb:
                        nl[k] = va
                    elif va is UNINIT or vb is UNINIT:
                        # a local assigned on one side only is dead at the join (MIR is in SSA-ish form for
                        # temporaries); keep whichever is set guarded -- cannot represent, so drop it.
                        nl[k] = va if vb is UNINIT else vb
                    else:
                        nl[k] = ite_value(cb, vb, va)
                nf = Frame(fa.fn, nl, fa.ret)
                nf.bb = fa.bb
                nf.si = fa.si
                newframes.append(nf)
            ncells = {}
            for k in a.cells:
                va, vb = a.cells[k], b.cells[k]
                ncells[k] = va if va is vb else ite_value(cb, vb, va)
        except Unmergeable as e:
            if self.trace:
                print('[merge fail]', e, 'at', self.where(a), file=sys.stderr)
            return None
        m = State()
        m.frames = newframes
        m.cells = ncells
        m.env = dict(a.env)
        m.fuel = min(a.fuel, b.fuel)
        m.ncell = max(a.ncell, b.ncell)
        disj = mk_bool(z3.Or(ca, cb))
        m.pc = list(a.pc[:pre_len])
        if disj is not True:
            m.pc.append(to_z3bool(disj))
        return m

    # -------------------------------------------------------------------------------- stepping
    def where(self, st):
        out = []
        for fr in st.frames[-4:]:
            if type(fr) is Frame:
                out.append('%s:bb%d' % (short_name(fr.fn.name), fr.bb))
            else:
                out.append('<kont>')
        return ' > '.join(out)

    def step(self, st):
        fr = st.frames[-1]
        if type(fr) is Kont:
            raise ExecError('kont frame on top without a value')
        st.fuel -= 1
        self.stats['steps'] += 1
        if self.progress and self.stats['steps'] % self.progress == 0:
            print('[mirsym] steps=%d leaves=%d forks=%d merges=%d checks=%d solver=%.1fs pc=%d at %s' % (
                self.stats['steps'], len(self.leaves), self.stats['forks'], self.stats['merges'],
                self.stats['solver_checks'], self.stats['solver_s'], len(st.pc), self.where(st)), file=sys.stderr)
        if st.fuel <= 0:
            self.leaves.append(Leaf('error', st, msg='fuel exhausted (possible non-termination)', where=self.where(st)))
            return ('done',)
        stmts, term = mp.get_block(fr.fn, fr.bb)
        if fr.si < len(stmts):
            s = stmts[fr.si]
            fr.si += 1
            k = s[0]
            if k == 'assign':
                v = self.eval_rvalue(st, s[2])
                if s[2][0] == 'discr' and isinstance(v, Int) and not s[1][1]:
                    # the discriminant has the type of the destination local (i8 for cmp::Ordering, isize by default)
                    dty = fr.fn.locals.get(s[1][0], '').strip()
                    if dty in INT_TYPES and dty != v.ty:
                        v = int_cast(v, dty)
                self.write_place(st, len(st.frames) - 1, s[1], v)
            elif k == 'setdiscr':
                raise ExecError('SetDiscriminant unsupported in ' + fr.fn.name)
            return None
        return self.exec_term(st, fr, term)

    def exec_term(self, st, fr, term):
        k = term[0]
        if k == 'goto':
            fr.bb = term[1]
            fr.si = 0
            return None
        if k == 'call':
            _, callee, ops, dest, bb = term
            args = [self.eval_operand(st, o) for o in ops]
            if isinstance(callee, tuple):
                fv = self.eval_operand(st, callee[1])
                callee = fv
            return self.invoke(st, callee, args, ('mir', dest, bb), fr)
        if k == 'switch':
            return self.exec_switch(st, fr, term)
        if k == 'return':
            v = fr.locals.get(0, UNIT)
            if v is UNINIT:
                v = UNIT
            if fr.ret[0] == 'top':
                v = reify_refs(v, fr.locals, len(st.frames) - 1)
            st.frames.pop()
            return self.deliver(st, v, fr.ret)
        if k == 'drop':
            fr.bb = term[2]
            fr.si = 0
            return None
        if k == 'assert':
            _, op, expected, msg, bb = term
            c = self.eval_operand(st, op)
            ok = c if expected else b_not(c)
            if ok is True:
                fr.bb = bb
                fr.si = 0
                return None
            if ok is False:
                raise PanicExc('assert failed: ' + msg)
            bad = to_z3bool(b_not(ok))
            if not self.unsat_alone(bad) and self.sat(st, bad):
                lf = Leaf('panic', st, msg='assert failed: ' + msg, where=self.where(st))
                lf.pc.append(bad)
                self.leaves.append(lf)
            if not self.sat(st, to_z3bool(ok)):
                return ('done',)
            st.pc.append(to_z3bool(ok))
            fr.bb = bb
            fr.si = 0
            return None
        if k == 'unreachable':
            self.leaves.append(Leaf('error', st, msg='reached `unreachable` terminator', where=self.where(st)))
            return ('done',)
        if k == 'resume':
            raise ExecError('reached resume/cleanup in ' + fr.fn.name)
        raise ExecError('unknown terminator ' + k)

    def exec_switch(self, st, fr, term):
        _, op, arms, otherwise = term
        v = self.eval_operand(st, op)
        if isinstance(v, bool):
            iv = 1 if v else 0
        elif isinstance(v, Int) and v.concrete:
            iv = v.v
            w, s = INT_TYPES[v.ty]
            ivu = iv & ((1 << w) - 1)
        else:
            iv = None
        if iv is not None:
            tgt = otherwise
            for val, bb in arms:
                if isinstance(v, bool):
                    if val == iv:
                        tgt = bb
                        break
                else:
                    if (val & ((1 << w) - 1)) == ivu:
                        tgt = bb
                        break
            if tgt is None:
                raise ExecError('switch without target')
            fr.bb = tgt
            fr.si = 0
            return None
        # symbolic
        alts = []
        if isinstance(v, Int):
            bv = to_bv(v)
            w = bv.size()
            neg = []
            for val, bb in arms:
                c = bv == z3.BitVecVal(val & ((1 << w) - 1), w)
                alts.append((c, bb))
                neg.append(z3.Not(c))
            if otherwise is not None:
                alts.append((z3.And(*neg) if len(neg) > 1 else neg[0], otherwise))
        else:
            b = to_z3bool(v)
            for val, bb in arms:
                alts.append((b if val else z3.Not(b), bb))
            if otherwise is not None:
                # arms usually [0: bbX], otherwise = true branch
                if len(arms) == 1:
                    alts.append((z3.Not(alts[0][0]), otherwise))
                else:
                    alts.append((z3.BoolVal(False), otherwise))
        feas = []
        for c, bb in alts:
            c = mk_bool(c)
            if c is False:
                continue
            if c is True or self.sat(st, c):
                feas.append((c, bb))
        if not feas:
            return ('done',)
        if len(feas) == 1:
            c, bb = feas[0]
            if c is not True:
                st.pc.append(c)
            fr.bb = bb
            fr.si = 0
            return None
        depth = len(st.frames)
        ip = mp.compute_ipdom(fr.fn).get(fr.bb, -1)
        join = (depth, ip) if ip is not None and ip >= 0 else None
        if join is None and fr.ret[0] == 'mir' and fr.ret[2] is not None:
            # all arms leave the function: merge at the caller's continuation instead
            join = (depth - 1, fr.ret[2])
        children = []
        for c, bb in feas:
            ch = st.clone()
            ch.pc.append(c)
            cf = ch.frames[-1]
            cf.bb = bb
            cf.si = 0
            children.append(ch)
        return ('fork', children, join)

    # -------------------------------------------------------------------------------- calls
    def deliver(self, st, v, ret):
        """A frame finished with value v; route it according to ret.  Returns an event or None."""
        k = ret[0]
        if k == 'mir':
            _, dest, bb = ret
            if bb is None:
                raise ExecError('diverging call returned')
            if dest is not None:
                self.write_place(st, len(st.frames) - 1, dest, v)
            fr = st.frames[-1]
            fr.bb = bb
            fr.si = 0
            return None
        if k == 'kont':
            ko = st.frames.pop()
            r = ko.k(st, v)
            return self.handle_result(st, r, ko.ret)
        if k == 'top':
            self.leaves.append(Leaf('return', st, value=v))
            return ('done',)
        raise ExecError('bad ret ' + repr(ret))

    def handle_result(self, st, r, ret):
        while True:
            if isinstance(r, Call):
                st.frames.append(Kont(r.k, ret))
                return self.invoke(st, r.callee, r.args, ('kont',), None)
            if isinstance(r, Choices):
                feas = []
                for c, th in r.alts:
                    c = mk_bool(c)
                    if c is False:
                        continue
                    if c is True or self.sat(st, to_z3bool(c)):
                        feas.append((c, th))
                if not feas:
                    return ('done',)
                if len(feas) == 1:
                    c, th = feas[0]
                    if c is not True:
                        st.pc.append(to_z3bool(c))
                    r = th(st)
                    continue
                join = None
                if ret[0] == 'mir' and st.frames and type(st.frames[-1]) is Frame:
                    cf = st.frames[-1]
                    ip = mp.compute_ipdom(cf.fn).get(cf.bb, -1)
                    if ip is not None and ip >= 0:
                        join = (len(st.frames), ip)
                out_children = []
                for c, th in feas:
                    ch = st.clone()
                    if c is not True:
                        ch.pc.append(to_z3bool(c))
                    try:
                        ev = self.handle_result(ch, th(ch), ret)
                    except PanicExc as e:
                        self.leaves.append(Leaf('panic', ch, msg=e.msg, where=self.where(ch)))
                        continue
                    if ev is None or ev[0] == 'cont':
                        out_children.append(ch)
                    elif ev[0] == 'fork':
                        out_children.extend(ev[1])
                if not out_children:
                    return ('done',)
                return ('fork', out_children, join)
            if isinstance(r, Panic):
                raise PanicExc(r.msg)
            if isinstance(r, Diverge):
                return ('done',)
            return self.deliver(st, r, ret)

    def invoke(self, st, callee, args, ret, fr):
        """Resolve and call.  callee: MIR callee text | Fn | Closure/FnDef value."""
        target = self.resolve_callee(st, callee, args, fr)
        kind = target[0]
        if kind == 'mir':
            fn = target[1]
            a = args
            if target[2] == 'spread':
                # closure call through Fn*/call: args = (closure_env, (tuple of args))
                a = [args[0]] + list(args[1].f)
                pt = fn.locals[fn.args[0]].strip()
                if pt.startswith('&') and not isinstance(a[0], Ref):
                    a[0] = Ref(('V', a[0]))
                elif not pt.startswith('&') and isinstance(a[0], Ref):
                    a[0] = self.read_ref(st, a[0])
            self.push_mir_frame(st, fn, a, ret)
            return None
        if kind == 'builtin':
            name, pyfn, info = target[1], target[2], target[3]
            c = self.stats['builtin_calls']
            c[name] = c.get(name, 0) + 1
            sym = [i for i, a in enumerate(args) if isinstance(a, Enum) and a.variant is None and a.ty == 'Option']
            if sym and not getattr(pyfn, 'symbolic_option_ok', False):
                i = sym[0]
                alts = []
                for cond, ov in split_option(args[i]):
                    a2 = list(args)
                    a2[i] = ov
                    alts.append((cond, (lambda s2, a2=a2: self._call_builtin_again(s2, name, pyfn, info, a2))))
                r = Choices(alts)
            else:
                r = pyfn(self, st, info, args)
            return self.handle_result(st, r, ret)
        raise ExecError('bad target')

    def _call_builtin_again(self, st, name, pyfn, info, args):
        sym = [i for i, a in enumerate(args) if isinstance(a, Enum) and a.variant is None and a.ty == 'Option']
        if sym:
            i = sym[0]
            alts = []
            for cond, ov in split_option(args[i]):
                a2 = list(args)
                a2[i] = ov
                alts.append((cond, (lambda s2, a2=a2: self._call_builtin_again(s2, name, pyfn, info, a2))))
            return Choices(alts)
        return pyfn(self, st, info, args)

    def resolve_callee(self, st, callee, args, fr):
        if isinstance(callee, mp.Fn):
            return ('mir', callee, None)
        if isinstance(callee, Closure):
            nm = self.prog.closures.get(callee.name)
            if nm is None:
                raise ExecError('unknown closure ' + callee.name)
            return ('mir', self.prog.items[nm], 'spread')
        if isinstance(callee, FnDef):
            callee = callee.name
        if isinstance(callee, Ref):
            v = self.read_ref(st, callee)
            return self.resolve_callee(st, v, args, fr)
        if not isinstance(callee, str):
            raise ExecError('cannot call %r' % (callee,))
        key = callee
        r = self.resolve_cache.get(key)
        if r is not None:
            if r[0] != 'dynamic':
                return r
        else:
            r = self._resolve_static(callee)
            self.resolve_cache[key] = r
            if r[0] != 'dynamic':
                return r
        # dynamic dispatch on receiver runtime type
        _, trait, method, info = r
        if not args:
            raise ExecError('dynamic call without receiver: ' + callee)
        recv = args[0]
        rty = self.runtime_type(st, recv)
        name = self.prog.find_method(rty, trait, method)
        if name is not None:
            return ('mir', self.prog.items[name], None)
        b = self.builtins.lookup_dyn(trait, method, rty)
        if b is not None:
            return ('builtin', '%s::%s[%s]' % (last_seg(trait), method, rty), b, info)
        raise ExecError('cannot resolve dynamic call %s on runtime type %s' % (callee, rty))

    def _resolve_static(self, callee):
        text = strip_lifetimes(callee)
        info = parse_callee(text)
        if self.overrides:
            o = self.overrides.get(info['method'])
            if o is not None:
                return ('builtin', 'override:' + info['method'], o, info)
        # 1. trait methods implemented in the dumped crates for a (non-reference) user type
        if info['trait'] is not None and not info['selfty'].lstrip().startswith(('&', '[', '(')):
            name = self.prog.find_method(type_key(info['selfty']), info['trait'], info['method'])
            if name is not None:
                return ('mir', self.prog.items[name], None)
        # 1b. builtins (std / deku / libm functions)
        b = self.builtins.lookup(info)
        if b is not None:
            return ('builtin', info['display'], b, info)
        # 2. closures
        if info['selfty'] is not None and info['selfty'].startswith('{closure@'):
            nm = self.prog.closures.get(normalize_closure(info['selfty']))
            if nm is None:
                raise ExecError('unknown closure ' + info['selfty'])
            return ('mir', self.prog.items[nm], 'spread')
        # 3. MIR functions
        if info['trait'] is not None:
            sk = type_key(info['selfty'])
            name = self.prog.find_method(sk, info['trait'], info['method'])
            if name is not None:
                return ('mir', self.prog.items[name], None)
            if re.match(r'^[A-Z][A-Za-z0-9]?$', info['selfty'].strip()) or info['selfty'].strip().startswith('&'):
                return ('dynamic', info['trait'], info['method'], info)
            # references / smart pointers to user types: try dynamic as a fallback
            return ('dynamic', info['trait'], info['method'], info)
        name = self.prog.find_free_fn(info['path'])
        if name is not None:
            return ('mir', self.prog.items[name], None)
        raise ExecError('unknown callee: ' + callee)

    def runtime_type(self, st, v):
        seen = 0
        while isinstance(v, (Ref, Box)) and seen < 8:
            v = self.read_ref(st, v) if isinstance(v, Ref) else v.v
            seen += 1
        if isinstance(v, (Struct, Enum)):
            return v.ty
        if isinstance(v, Vec):
            return 'Vec'
        if isinstance(v, RString):
            return 'String'
        if isinstance(v, Int):
            return v.ty
        if isinstance(v, Flt):
            return v.ty
        if isinstance(v, bool) or isinstance(v, z3.BoolRef):
            return 'bool'
        if isinstance(v, StrLit):
            return 'str'
        if isinstance(v, Opaque):
            return v.kind
        if isinstance(v, Arr):
            return 'array'
        if isinstance(v, Tup):
            return 'tuple'
        if isinstance(v, BMap):
            return 'BTreeMap'
        if isinstance(v, Closure):
            return v.name
        return type(v).__name__

    def builtins_alloc(self, st, n):
        """Account n elements/bytes appended to a heap container (C01: bounded allocation)."""
        st.env['alloc'] = st.env.get('alloc', 0) + n

    # -------------------------------------------------------------------------------- places
    def resolve_place(self, st, depth, place):
        local, projs = place
        base = ('L', depth, local)
        out = []
        for p in projs:
            k = p[0]
            if k == 'deref':
                v = self.read_loc(st, base, out)
                if isinstance(v, Ref):
                    base = v.base
                    out = list(v.projs)
                elif isinstance(v, Box):
                    out.append(('box',))
                else:
                    raise ExecError('deref of non-reference %r in %s' % (v, self.where(st)))
            elif k == 'index':
                iv = st.frames[depth].locals[p[1]]
                out.append(('idx', iv))
            else:
                out.append(p)
        return base, out

    def base_value(self, st, base):
        k = base[0]
        if k == 'L':
            try:
                return st.frames[base[1]].locals[base[2]]
            except KeyError:
                return UNINIT
        if k == 'V':
            return base[1]
        if k == 'C':
            return st.cells[base[1]]
        if k == 'S':
            return self.static_value(base[1])
        raise ExecError('bad base %r' % (base,))

    def read_loc(self, st, base, projs):
        v = self.base_value(st, base)
        for p in projs:
            v = self.project(st, v, p)
        return v

    def read_ref(self, st, r):
        return self.read_loc(st, r.base, r.projs)

    def write_ref(self, st, r, nv):
        self.write_loc(st, r.base, r.projs, nv)

    def read_place(self, st, depth, place):
        local, projs = place
        if not projs:
            try:
                return st.frames[depth].locals[local]
            except KeyError:
                raise ExecError('read of unset local _%d in %s' % (local, st.frames[depth].fn.name))
        base, pr = self.resolve_place(st, depth, place)
        return self.read_loc(st, base, pr)

    def write_place(self, st, depth, place, nv):
        local, projs = place
        if not projs:
            st.frames[depth].locals[local] = nv
            return
        base, pr = self.resolve_place(st, depth, place)
        self.write_loc(st, base, pr, nv)

    def write_loc(self, st, base, projs, nv):
        if projs:
            old = self.base_value(st, base)
            nv = self.update(st, old, projs, 0, nv)
        k = base[0]
        if k == 'L':
            st.frames[base[1]].locals[base[2]] = nv
        elif k == 'C':
            st.cells[base[1]] = nv
        else:
            raise ExecError('write to immutable base %r' % (base,))

    def project(self, st, v, p):
        k = p[0]
        if k == 'field':
            i = p[1]
            if isinstance(v, (Struct, Tup, Enum)):
                try:
                    return v.f[i]
                except IndexError:
                    raise ExecError('field %d out of range on %r' % (i, v))
            if isinstance(v, Closure):
                return v.caps[i]
            if isinstance(v, Box) and i == 0:
                return v
            raise ExecError('field projection .%d on %r (%s)' % (i, v, self.where(st)))
        if k == 'downcast':
            if not isinstance(v, Enum):
                raise ExecError('downcast on non-enum %r' % (v,))
            if v.variant != p[1]:
                if v.variant is None and v.ty == 'Option' and p[1] == 'Some' and v.f:
                    return v
                raise ExecError('downcast to %s but value is %r (%s)' % (p[1], v, self.where(st)))
            return v
        if k == 'idx':
            iv = p[1]
            elems = self.elems_of(v)
            if isinstance(iv, Int) and iv.concrete:
                if not (0 <= iv.v < len(elems)):
                    raise PanicExc('index out of bounds: %d of %d' % (iv.v, len(elems)))
                return elems[iv.v]
            if isinstance(iv, int):
                if not (0 <= iv < len(elems)):
                    raise PanicExc('index out of bounds: %d of %d' % (iv, len(elems)))
                return elems[iv]
            return self.select_symbolic(st, elems, iv)
        if k == 'cindex':
            elems = self.elems_of(v)
            _, off, minlen, from_end = p
            i = len(elems) - off if from_end else off
            return elems[i]
        if k == 'range':
            elems = self.elems_of(v)
            a, b = p[1], p[2]
            if b is None:
                b = len(elems)
            if not (0 <= a <= b <= len(elems)):
                raise PanicExc('slice range %r..%r out of bounds of %d' % (a, b, len(elems)))
            return Arr(elems[a:b])
        if k == 'subslice':
            elems = self.elems_of(v)
            _, a, b, from_end = p
            e = len(elems) - b if from_end else b
            return Arr(elems[a:e])
        if k == 'box':
            if isinstance(v, Box):
                return v.v
            raise ExecError('box proj on %r' % (v,))
        if k == 'mapval':
            return v.ents[p[1]][1]
        raise ExecError('unknown projection %r' % (p,))

    def elems_of(self, v):
        if isinstance(v, (Arr, Vec)):
            return v.e
        if isinstance(v, Box):
            return self.elems_of(v.v)
        raise ExecError('indexing into %r' % (v,))

    def select_symbolic(self, st, elems, iv):
        """elems[iv] for symbolic iv: bounds obligation + mux tree."""
        n = len(elems)
        bv = to_bv(iv)
        w = bv.size()
        oob = z3.UGE(bv, z3.BitVecVal(n, w))
        if self.sat(st, oob):
            lf = Leaf('panic', st, msg='index out of bounds (symbolic index, len %d)' % n, where=self.where(st))
            lf.pc.append(oob)
            self.leaves.append(lf)
            st.pc.append(z3.Not(oob))
        # all-concrete integer tables: build the mux tree once over a placeholder and substitute the index
        if n >= 16 and all(isinstance(e, Int) and e.concrete for e in elems):
            key = (id(elems), w)
            ent = self.mux_cache.get(key)
            if ent is None:
                ph = z3.BitVec('__mux_idx_%d' % len(self.mux_cache), w)
                ty = elems[0].ty
                ew = INT_TYPES[ty][0]
                nb = max(1, (n - 1).bit_length())

                def build(lo, hi, bit):
                    if hi - lo == 1 or bit < 0:
                        return z3.BitVecVal(elems[lo].v & ((1 << ew) - 1), ew)
                    mid = lo + (1 << bit)
                    if mid >= hi:
                        return build(lo, hi, bit - 1)
                    return z3.If(z3.Extract(bit, bit, ph) == z3.BitVecVal(1, 1), build(mid, hi, bit - 1),
                                 build(lo, mid, bit - 1))
                ent = (ph, build(0, n, nb - 1), ty, elems)
                self.mux_cache[key] = ent
            ph, tree, ty, _keepalive = ent
            return Int(ty, z3.substitute(tree, (ph, bv)))
        nbits = max(1, (n - 1).bit_length())

        def mux(lo, hi, bit):
            # elements lo..hi (exclusive), decide on `bit`
            if hi - lo == 1 or bit < 0:
                return elems[lo]
            mid = lo + (1 << bit)
            if mid >= hi:
                return mux(lo, hi, bit - 1)
            c = z3.Extract(bit, bit, bv) == z3.BitVecVal(1, 1)
            x, y = mux(mid, hi, bit - 1), mux(lo, mid, bit - 1)
            try:
                return ite_value(c, x, y)
            except Unmergeable:
                # elements without a term representation (string literals, references): a deferred choice that can be
                # stored, passed to (disabled) logging or dropped; any code that inspects it stops with an ExecError
                return Opaque('choice', (c, x, y))
        return mux(0, n, nbits - 1)

    def update(self, st, v, projs, i, nv):
        if i == len(projs):
            return nv
        p = projs[i]
        k = p[0]
        if k == 'field':
            idx = p[1]
            if v is UNINIT:
                f = [UNINIT] * (idx + 1)
                f[idx] = self.update(st, UNINIT, projs, i + 1, nv)
                return Tup(f)
            if isinstance(v, Struct):
                f = list(v.f)
                f[idx] = self.update(st, f[idx], projs, i + 1, nv)
                return Struct(v.ty, f)
            if isinstance(v, Tup):
                f = list(v.f)
                while len(f) <= idx:
                    f.append(UNINIT)
                f[idx] = self.update(st, f[idx], projs, i + 1, nv)
                return Tup(f)
            if isinstance(v, Enum):
                f = list(v.f)
                f[idx] = self.update(st, f[idx], projs, i + 1, nv)
                return Enum(v.ty, v.variant, f, discr=v.discr)
            raise ExecError('field update on %r' % (v,))
        if k == 'downcast':
            if not isinstance(v, Enum) or (v.variant != p[1] and not (v.variant is None and v.ty == 'Option' and p[1] == 'Some' and v.f)):
                raise ExecError('downcast update mismatch')
            return self.update(st, v, projs, i + 1, nv)
        if k == 'idx':
            iv = p[1]
            if isinstance(iv, Int) and not iv.concrete:
                # symbolic index into a small array: every element becomes ite(index == i, updated, old)
                elems = list(self.elems_of(v))
                if len(elems) > 64:
                    raise ExecError('write through symbolic index into a large array')
                bv = to_bv(iv)
                out = []
                for j, e in enumerate(elems):
                    upd = self.update(st, e, projs, i + 1, nv)
                    out.append(ite_value(bv == z3.BitVecVal(j, bv.size()), upd, e))
                return type(v)(out)
            if isinstance(iv, Int):
                iv = iv.v
            elems = list(self.elems_of(v))
            if not (0 <= iv < len(elems)):
                raise PanicExc('index out of bounds on write')
            elems[iv] = self.update(st, elems[iv], projs, i + 1, nv)
            return type(v)(elems)
        if k == 'cindex':
            elems = list(self.elems_of(v))
            _, off, minlen, from_end = p
            j = len(elems) - off if from_end else off
            elems[j] = self.update(st, elems[j], projs, i + 1, nv)
            return type(v)(elems)
        if k == 'range':
            elems = list(self.elems_of(v))
            a, b = p[1], p[2]
            if b is None:
                b = len(elems)
            if not (0 <= a <= b <= len(elems)):
                raise PanicExc('slice range out of bounds on write')
            sub = self.update(st, Arr(elems[a:b]), projs, i + 1, nv)
            if len(sub.e) != b - a:
                raise ExecError('slice write changes length')
            elems[a:b] = list(sub.e)
            return type(v)(elems)
        if k == 'box':
            return Box(self.update(st, v.v, projs, i + 1, nv))
        if k == 'mapval':
            ents = list(v.ents)
            kk, vv = ents[p[1]]
            ents[p[1]] = (kk, self.update(st, vv, projs, i + 1, nv))
            return BMap(ents)
        raise ExecError('unknown projection in update %r' % (p,))

    # -------------------------------------------------------------------------------- operands
    def eval_operand(self, st, op):
        k = op[0]
        if k == 'const':
            return self.eval_const(st, op[1])
        return self.read_place(st, len(st.frames) - 1, op[1])

    def eval_const(self, st, text):
        fr = st.frames[-1] if st.frames else None
        key = text
        c = self.prog.const_cache.get(key)
        if c is not None:
            return c
        v, cacheable = self._eval_const(st, text, fr)
        if cacheable:
            self.prog.const_cache[key] = v
        return v

    _int_re = re.compile(r'^(-?\d+)_(u8|u16|u32|u64|u128|usize|i8|i16|i32|i64|i128|isize)$')
    _flt_re = re.compile(r'^([-+]?(?:\d+\.?\d*(?:[eE][-+]?\d+)?|inf|NaN))(f32|f64)$')

    _intconst_re = re.compile(r'^(?:core::|std::)?([iu](?:8|16|32|64|128|size))::(MAX|MIN|BITS)$')

    def _eval_const(self, st, text, fr):
        mi = re.search(r'<impl ([A-Za-z0-9_]+)>::([A-Za-z0-9_]+)$', text)
        if mi:
            # associated constant of a primitive: core::f64::<impl f64>::INFINITY -> f64::INFINITY
            text = '%s::%s' % (mi.group(1), mi.group(2))
        mr = re.match(r'^(?:[a-z_]+::)*(Option|Result)::<.*>::(Some|None|Ok|Err)(?:\((.*)\))?$', text, re.S)
        if mr:
            # enum constant with payload, e.g. the residual `Result::<Infallible, fmt::Error>::Err(fmt::Error)` of `?`
            if mr.group(3) is None:
                return Enum(mr.group(1), mr.group(2), ()), True
            inner, _ = self._eval_const(st, mr.group(3).strip(), fr)
            return Enum(mr.group(1), mr.group(2), (inner,)), True
        if text in ('std::fmt::Error', 'core::fmt::Error', 'fmt::Error'):
            return Opaque('zst', 'fmt::Error'), True
        m = self._int_re.match(text)
        if m:
            return Int(m.group(2), int(m.group(1))), True
        if text == 'true':
            return True, True
        if text == 'false':
            return False, True
        if text == '()':
            return UNIT, True
        m = self._flt_re.match(text)
        if m:
            return mk_flt(m.group(2), float(m.group(1))), True
        if text.startswith('"'):
            return StrLit(rust_unescape(text[1:mp.skip_string(text, 0) - 1])), True
        if text.startswith('b"'):
            raw = rust_unescape_bytes(text[2:mp.skip_string(text, 1) - 1])
            return Ref(('V', Arr([Int('u8', b) for b in raw]))), True
        if text.startswith("'"):
            s = rust_unescape(text[1:-1])
            return Int('char', ord(s)), True
        if text.startswith('{alloc'):
            return Opaque('alloc', text), True
        sc = STD_CONSTS.get(text) or STD_CONSTS.get(text.replace('core::', 'std::'))
        if sc is not None:
            return mk_flt(sc[0], sc[1]), True
        if text in ('std::time::UNIX_EPOCH', 'SystemTime::UNIX_EPOCH', 'std::time::SystemTime::UNIX_EPOCH', 'UNIX_EPOCH'):
            return Struct('SystemTime', (Int('u64', 0), Int('u32', 0))), True
        if text in ('Duration::ZERO', 'std::time::Duration::ZERO', 'core::time::Duration::ZERO'):
            return Struct('Duration', (Int('u64', 0), Int('u32', 0))), True
        m = self._intconst_re.match(text)
        if m and m.group(1) in INT_TYPES:
            w, sg = INT_TYPES[m.group(1)]
            if m.group(2) == 'BITS':
                return Int('u32', w), True
            if m.group(2) == 'MAX':
                return Int(m.group(1), (1 << (w - 1)) - 1 if sg else (1 << w) - 1), True
            return Int(m.group(1), -(1 << (w - 1)) if sg else 0), True
        if text.startswith('ZeroSized: '):
            t = text[11:].strip()
            if t.startswith('{closure@'):
                return Closure(normalize_closure(t), ()), True
            return Opaque('zst', t), True
        m = re.match(r'^(.*)::<[^>]*>$', text)
        # named const / static / promoted
        if fr is not None:
            it = self.prog.find_const(text, fr.fn)
            if it is not None:
                return self.item_value(it), ('promoted[' not in text)
        # unit struct / enum variant / fn item constants
        ls = last_seg(text)
        segs = [s for s in split_path(text) if s]
        if len(segs) >= 2:
            ety = last_seg(segs[-2]) if not segs[-2].startswith('<') else None
            en = self.prog.src.enums.get(ety) if ety else None
            if en is not None and ls in en:
                return Enum(ety, ls, ()), True
        if ls in BARE_VARIANTS:
            return Enum(BARE_VARIANTS[ls], ls, ()), True
        # a function item?
        try:
            r = self._resolve_static(text)
            if r[0] in ('mir', 'builtin'):
                return FnDef(text), True
        except ExecError:
            pass
        return Opaque('const', text), True

    def item_value(self, it):
        v = self.prog.const_cache.get(('item', it.name))
        if v is not None:
            return v
        rty = str(it.locals.get(0, '') if hasattr(it, 'locals') and isinstance(getattr(it, 'locals', None), dict) else '')
        if 'LocalKey<' in rty:
            # a `thread_local!` key: a global cell of the state (mirsym/coll_bi.py), its accessor body is not executed
            v = Opaque('tls', it.name)
            self.prog.const_cache[('item', it.name)] = v
            return v
        if it.kind == 'constval':
            t = it.value_text
            if not t.startswith('const '):
                raise ExecError('bad const item ' + it.name)
            dummy = State()
            fr = Frame(it, {}, ('top',))
            dummy.frames.append(fr)
            v, _ = self._eval_const(dummy, t[6:].strip(), fr)
        else:
            # evaluate body with a private executor state
            sub = Executor(self.prog, self.builtins)
            leaves = sub.run(it, [])
            rets = [l for l in leaves if l.kind == 'return']
            if len(leaves) != 1 or len(rets) != 1:
                raise ExecError('const item %s did not evaluate to a single value: %r' % (it.name, leaves))
            v = rets[0].value
        self.prog.const_cache[('item', it.name)] = v
        return v

    def static_value(self, name):
        it = self.prog.items.get(name)
        if it is None:
            raise ExecError('no static ' + name)
        return self.item_value(it)

    # -------------------------------------------------------------------------------- rvalues
    def eval_rvalue(self, st, rv):
        k = rv[0]
        if k == 'use':
            return self.eval_operand(st, rv[1])
        if k == 'ref' or k == 'rawptr':
            base, projs = self.resolve_place(st, len(st.frames) - 1, rv[2])
            return Ref(base, projs, rv[1])
        if k == 'bin':
            a = self.eval_operand(st, rv[2])
            b = self.eval_operand(st, rv[3])
            return self.binop(st, rv[1], a, b)
        if k == 'un':
            a = self.eval_operand(st, rv[2])
            return self.unop(st, rv[1], a)
        if k == 'cast':
            return self.cast(st, self.eval_operand(st, rv[1]), rv[2], rv[3])
        if k == 'discr':
            v = self.read_place(st, len(st.frames) - 1, rv[1])
            return self.discriminant(v)
        if k == 'tuple':
            return Tup([self.eval_operand(st, o) for o in rv[1]])
        if k == 'array':
            return Arr([self.eval_operand(st, o) for o in rv[1]])
        if k == 'repeat':
            v = self.eval_operand(st, rv[1])
            n = self.const_usize(st, rv[2])
            return Arr([v] * n)
        if k == 'adt':
            return self.make_adt(st, rv[1], rv[2])
        if k == 'closure':
            caps = [self.eval_operand(st, o) for o in rv[2]]
            name = normalize_closure(rv[1])
            need = self.closure_capture_types(name)
            if need is not None and len(caps) < len(need):
                caps = self.recover_captures(st, rv[2], caps, need, name)
            return Closure(name, caps)
        if k == 'len':
            v = self.read_place(st, len(st.frames) - 1, rv[1])
            return Int('usize', len(self.elems_of(v)))
        raise ExecError('unknown rvalue ' + k)

    def closure_capture_types(self, name):
        """types of the captures a closure body projects out of its environment (`(_1.N: T)`), by index"""
        cache = self.prog.const_cache
        key = ('captys', name)
        if key in cache:
            return cache[key]
        nm = self.prog.closures.get(name)
        out = None
        if nm is not None:
            f = self.prog.items[nm]
            tys = {}
            for raw in f.src.values():
                for ln in raw:
                    for m in re.finditer(r'\(\*?_1\.(\d+): ((?:[^()]|\([^()]*\))*)\)', ln):
                        tys[int(m.group(1))] = m.group(2).strip()
            if tys:
                out = [tys.get(i) for i in range(max(tys) + 1)]
        cache[key] = out
        return out

    def recover_captures(self, st, ops, caps, need, name):
        """The MIR pretty-printer zips the operands of a closure aggregate with the names of the captured *variables*:
        with disjoint field captures (`self.cache`, `self.just_seeked`, `buf`) it prints fewer operands than the
        closure has captures.  The missing operands are temporaries of the enclosing frame that were assigned for this
        purpose: initialised locals of exactly the capture's type that no statement or terminator of the function
        mentions except their own assignment and storage markers."""
        fr = st.frames[-1]
        fn = fr.fn
        used = {}
        text_all = []
        for raw in fn.src.values():
            text_all.extend(raw)
        def mentions(loc):
            pat = re.compile(r'(?<![\w])_%d(?![\w])' % loc)
            n = 0
            for ln in text_all:
                if ln.strip().startswith(('StorageLive', 'StorageDead')):
                    continue
                n += len(pat.findall(ln))
            return n
        given = set()
        for o in ops:
            if o[0] in ('copy', 'move') and not o[1][1]:
                given.add(o[1][0])
        out = []
        ci = 0
        pool = [l for l, v in fr.locals.items() if v is not UNINIT and l not in given and l not in fn.args and l != 0]
        for i, ty in enumerate(need):
            # operands are printed in capture order; place the given ones where their type fits, fill the rest
            if ci < len(caps) and ty is not None and self._local_type_is(fn, ops[ci], ty):
                out.append(caps[ci])
                ci += 1
                continue
            cands = [l for l in pool if ty is not None and fn.locals.get(l, '').strip() == ty and mentions(l) == 1]
            if len(cands) != 1:
                raise ExecError('closure %s: capture %d (%s) is not printed in the MIR aggregate and cannot be recovered (%d candidates)'
                                % (name, i, ty, len(cands)))
            pool.remove(cands[0])
            out.append(fr.locals[cands[0]])
        if ci != len(caps):
            raise ExecError('closure %s: printed captures do not fit the capture types' % name)
        return out

    def _local_type_is(self, fn, op, ty):
        if op[0] in ('copy', 'move') and not op[1][1]:
            return fn.locals.get(op[1][0], '').strip() == ty
        return False

    def const_usize(self, st, text):
        text = text.strip()
        if text.startswith('const '):
            text = text[6:]
        v = self.eval_const(st, text)
        if isinstance(v, Int) and v.concrete:
            return v.v
        m = re.match(r'^(\d+)', text)
        if m:
            return int(m.group(1))
        raise ExecError('bad repeat count ' + text)

    def make_adt(self, st, path, fields):
        path = strip_lifetimes(path)
        segs = [s for s in split_path(path) if s]
        names = [s for s in segs if not s.startswith('<')]
        if fields[0] == 'pos':
            vals = [self.eval_operand(st, o) for o in fields[1]]
        elif fields[0] == 'named':
            vals = [self.eval_operand(st, o) for _, o in fields[1]]
        else:
            vals = []
        last = strip_generic(names[-1])
        if len(names) >= 2:
            ety = strip_generic(names[-2])
            en = self.prog.src.enums.get(ety)
            if en is not None and last in en:
                return Enum(ety, last, vals)
        if len(names) == 1 and last in BARE_VARIANTS:
            return Enum(BARE_VARIANTS[last], last, vals)
        en = self.prog.src.enums.get(last)
        if en is not None and fields[0] == 'unit':
            raise ExecError('enum type used as value: ' + path)
        if fields[0] == 'named':
            # field order in MIR aggregates is declaration order
            return Struct(last, vals)
        return Struct(last, vals)

    def discriminant(self, v):
        if isinstance(v, Enum):
            if v.variant is None:
                return Int('isize', v.discr)
            en = self.prog.src.enums.get(v.ty)
            if en is None or v.variant not in en:
                raise ExecError('unknown enum discriminant %s::%s' % (v.ty, v.variant))
            return Int('isize', en[v.variant])
        if isinstance(v, Opaque) and v.kind == 'cenum':
            return Int('isize', v.p)
        raise ExecError('discriminant of non-enum %r' % (v,))

    # -------------------------------------------------------------------------------- arithmetic
    def binop(self, st, op, a, b):
        if isinstance(a, Int) and isinstance(b, Int):
            return int_binop(op, a, b)
        if isinstance(a, Flt) and isinstance(b, Flt):
            return flt_binop(op, a, b)
        if is_boolish(a) and is_boolish(b):
            return bool_binop(op, a, b)
        if isinstance(a, Enum) and isinstance(b, Enum) and op in ('Eq', 'Ne'):
            # field-less enum comparison via discriminants
            da = self.discriminant(a)
            db = self.discriminant(b)
            return int_binop(op, da, db)
        if isinstance(a, Tup) and isinstance(b, Tup) and not a.f and not b.f:
            if op == 'Eq':
                return True
            if op == 'Ne':
                return False
        raise ExecError('binop %s on %r, %r' % (op, a, b))

    def unop(self, st, op, a):
        if op == 'Not':
            if is_boolish(a):
                return b_not(a)
            if isinstance(a, Int):
                if a.concrete:
                    return mk_int(a.ty, ~a.v)
                return mk_int(a.ty, ~a.v)
        if op == 'Neg':
            if isinstance(a, Int):
                if a.concrete:
                    return mk_int(a.ty, -a.v)
                return mk_int(a.ty, -a.v)
            if isinstance(a, Flt):
                if a.concrete:
                    return mk_flt(a.ty, -a.v)
                return Flt(a.ty, z3.fpNeg(a.v))
        if op == 'PtrMetadata':
            if isinstance(a, Ref):
                v = self.read_ref(st, a)
                if isinstance(v, (Arr, Vec)):
                    return Int('usize', len(v.e))
                if isinstance(v, StrLit):
                    return Int('usize', len(v.s.encode()))
            if isinstance(a, StrLit):
                return Int('usize', len(a.s.encode()))
            raise ExecError('PtrMetadata of %r' % (a,))
        raise ExecError('unop %s on %r' % (op, a))

    def cast(self, st, v, ty, kind):
        ty = ty.strip()
        if kind.startswith('PointerCoercion') or kind in ('PtrToPtr', 'FnPtrToPtr', 'Subtype'):
            if kind.startswith('PointerCoercion(Unsize') and isinstance(v, Ref) and 'dyn ' in ty:
                return v
            return v
        if kind == 'IntToInt':
            if is_boolish(v):
                if isinstance(v, bool):
                    return Int(ty, 1 if v else 0)
                w, _ = INT_TYPES[ty]
                return mk_int(ty, z3.If(v, z3.BitVecVal(1, w), z3.BitVecVal(0, w)))
            if isinstance(v, Enum):
                v = self.discriminant(v)
            return int_cast(v, ty)
        if kind == 'IntToFloat':
            return int_to_float(v, ty)
        if kind == 'FloatToInt':
            return float_to_int(v, ty)
        if kind == 'FloatToFloat':
            return float_to_float(v, ty)
        if kind == 'Transmute':
            if isinstance(v, Int) and ty in INT_TYPES and INT_TYPES[ty][0] == INT_TYPES[v.ty][0]:
                return int_cast(v, ty)
            return v
        raise ExecError('cast kind %s to %s of %r' % (kind, ty, v))


import math as _math
STD_CONSTS = {}
for _t in ('f64', 'f32'):
    for _n, _v in (('PI', _math.pi), ('TAU', _math.tau), ('E', _math.e), ('FRAC_PI_2', _math.pi / 2),
                   ('FRAC_PI_4', _math.pi / 4), ('LN_2', _math.log(2)), ('SQRT_2', _math.sqrt(2))):
        STD_CONSTS['std::%s::consts::%s' % (_t, _n)] = (_t, _v)
        STD_CONSTS['%s::consts::%s' % (_t, _n)] = (_t, _v)
for _t, _mx, _mp, _eps in (('f64', 1.7976931348623157e308, 2.2250738585072014e-308, 2.220446049250313e-16),
                           ('f32', 3.4028234663852886e38, 1.1754943508222875e-38, 1.1920928955078125e-07)):
    for _n, _v in (('INFINITY', float('inf')), ('NEG_INFINITY', float('-inf')), ('NAN', float('nan')), ('MAX', _mx),
                   ('MIN', -_mx), ('MIN_POSITIVE', _mp), ('EPSILON', _eps)):
        STD_CONSTS['%s::%s' % (_t, _n)] = (_t, _v)
        STD_CONSTS['std::%s::%s' % (_t, _n)] = (_t, _v)
STD_CONSTS['f64::EPSILON'] = ('f64', 2.220446049250313e-16)
STD_CONSTS['f64::MAX'] = ('f64', 1.7976931348623157e308)
STD_CONSTS['f64::INFINITY'] = ('f64', float('inf'))
STD_CONSTS['f64::NAN'] = ('f64', float('nan'))


def env_equal(a, b):
    if a.keys() != b.keys():
        return False
    for k in a:
        x, y = a[k], b[k]
        if x is y:
            continue
        if is_sym(x) or is_sym(y):
            return False
        try:
            if not (x == y):
                return False
        except Exception:
            return False
    return True


def short_name(n):
    return re.sub(r'<impl at [^>]*?([^/>]*\.rs:\d+):[^>]*>', r'<\1>', n)


def strip_generic(s):
    i = s.find('<')
    return s[:i] if i > 0 else s


def is_boolish(v):
    return isinstance(v, bool) or isinstance(v, z3.BoolRef)


def parse_callee(text):
    """-> dict(selfty, trait, method, path, generics, display, raw)"""
    t = text.strip()
    info = {'raw': t, 'selfty': None, 'trait': None, 'method': None, 'path': None, 'generics': None}
    if t.startswith('<'):
        end = mp.find_matching(t, 0)
        inner = t[1:end]
        rest = t[end + 1:]
        # split "X as Trait" at top level
        depth = 0
        pos = None
        i = 0
        while i < len(inner):
            c = inner[i]
            if c in '<([{':
                depth += 1
            elif c in '>)]}':
                if not (c == '>' and inner[i - 1] in '-='):
                    depth -= 1
            elif depth == 0 and inner.startswith(' as ', i):
                pos = i
                break
            i += 1
        if pos is None:
            info['selfty'] = inner.strip()
            info['trait'] = None
        else:
            info['selfty'] = inner[:pos].strip()
            info['trait'] = inner[pos + 4:].strip()
        segs = [s for s in split_path(rest) if s]
        if not segs:
            raise ExecError('bad callee ' + text)
        info['method'] = segs[0]
        if len(segs) > 1 and segs[1].startswith('<'):
            info['generics'] = segs[1]
        if info['trait'] is None:
            # <Type>::method  inherent
            info['path'] = type_key(info['selfty']) + '::' + info['method']
            info['display'] = info['path']
            tk = info['selfty']
            info['selfty_raw'] = tk
            info['trait'] = None
        else:
            info['display'] = '<%s as %s>::%s' % (info['selfty'], info['trait'], info['method'])
        return info
    segs = [s for s in split_path(t) if s]
    gens = [s for s in segs if s.startswith('<')]
    names = []
    for sg in segs:
        if sg.startswith('<impl ') and sg.endswith('>'):
            # inherent method of a primitive: core::num::<impl u32>::rotate_left -> ...::u32::rotate_left
            it = sg[6:-1].strip()
            info['impl_ty'] = it
            if it in INT_TYPES or it in FLOAT_TYPES or it in ('bool', 'char', 'str'):
                names.append(it)
        elif not sg.startswith('<'):
            names.append(strip_generic(sg))
    info['path'] = '::'.join(names)
    info['method'] = names[-1]
    info['generics'] = gens[-1] if gens else None
    info['allgenerics'] = gens
    info['display'] = info['path']
    return info


def reify_refs(v, locals_, depth, seen=0):
    """Replace references into the (about to be popped) frame `depth` by references to value snapshots."""
    if seen > 20:
        return v
    if isinstance(v, Ref):
        if v.base[0] == 'L' and v.base[1] == depth:
            tgt = reify_refs(locals_.get(v.base[2], UNINIT), locals_, depth, seen + 1)
            return Ref(('V', tgt), v.projs, v.mut, v.meta)
        return v
    if isinstance(v, Tup):
        return Tup([reify_refs(x, locals_, depth, seen + 1) for x in v.f])
    if isinstance(v, Struct):
        return Struct(v.ty, [reify_refs(x, locals_, depth, seen + 1) for x in v.f])
    if isinstance(v, Enum) and v.f:
        return Enum(v.ty, v.variant, [reify_refs(x, locals_, depth, seen + 1) for x in v.f], discr=v.discr)
    if isinstance(v, Arr):
        return Arr([reify_refs(x, locals_, depth, seen + 1) for x in v.e])
    return v


_esc = {'n': '\n', 't': '\t', 'r': '\r', '0': '\0', '\\': '\\', '"': '"', "'": "'"}


def rust_unescape(s):
    out = []
    i = 0
    while i < len(s):
        c = s[i]
        if c == '\\':
            n = s[i + 1]
            if n in _esc:
                out.append(_esc[n])
                i += 2
            elif n == 'x':
                out.append(chr(int(s[i + 2:i + 4], 16)))
                i += 4
            elif n == 'u':
                j = s.index('}', i)
                out.append(chr(int(s[i + 3:j], 16)))
                i = j + 1
            elif n == '\n':
                i += 2
                while i < len(s) and s[i] in ' \t\n':
                    i += 1
            else:
                raise ExecError('bad escape in string: ' + s[i:i + 4])
        else:
            out.append(c)
            i += 1
    return ''.join(out)


def rust_unescape_bytes(s):
    out = bytearray()
    i = 0
    while i < len(s):
        c = s[i]
        if c == '\\':
            n = s[i + 1]
            if n == 'x':
                out.append(int(s[i + 2:i + 4], 16))
                i += 4
            elif n in _esc:
                out.append(ord(_esc[n]))
                i += 2
            else:
                raise ExecError('bad escape in bytes: ' + s[i:i + 4])
        else:
            out += c.encode('utf-8')
            i += 1
    return bytes(out)


# ------------------------------------------------------------------------------------- int helpers
_CMP = {'Eq', 'Ne', 'Lt', 'Le', 'Gt', 'Ge'}


def _ite_consts(x):
    """If x is a symbolic Int of the form ite(c, k1, k2) with constant branches: (c, k1, k2)"""
    v = x.v
    if isinstance(v, int) or not z3.is_app_of(v, z3.Z3_OP_ITE):
        return None
    c, t, e = v.children()
    if z3.is_bv_value(t) and z3.is_bv_value(e):
        return c, norm_int(x.ty, t.as_long()), norm_int(x.ty, e.as_long())
    return None


def int_binop(op, a, b):
    ty = a.ty
    w, s = INT_TYPES[ty]
    if op in ('Mul', 'MulWithOverflow', 'MulUnchecked', 'Div', 'Rem') and not (a.concrete and b.concrete):
        # multiplication by a two-valued constant selector: distribute (keeps the solver's work linear)
        for x, y, swap in ((a, b, False), (b, a, True)):
            ic = _ite_consts(y)
            if ic is not None and not (swap and op in ('Div', 'Rem')):
                c, k1, k2 = ic
                r1 = int_binop(op, x, Int(y.ty, k1)) if not swap else int_binop(op, Int(y.ty, k1), x)
                r2 = int_binop(op, x, Int(y.ty, k2)) if not swap else int_binop(op, Int(y.ty, k2), x)
                return ite_value(c, r1, r2)
    if op in ('Shl', 'Shr', 'ShlUnchecked', 'ShrUnchecked'):
        return int_shift(op, a, b)
    if a.ty != b.ty:
        if not (INT_TYPES[a.ty] == INT_TYPES[b.ty]):
            raise ExecError('binop %s on mismatched int types %s/%s' % (op, a.ty, b.ty))
    conc = a.concrete and b.concrete
    if op in _CMP:
        if conc:
            x, y = a.v, b.v
            return {'Eq': x == y, 'Ne': x != y, 'Lt': x < y, 'Le': x <= y, 'Gt': x > y, 'Ge': x >= y}[op]
        x, y = to_bv(a), to_bv(b)
        if op == 'Eq':
            return mk_bool(x == y)
        if op == 'Ne':
            return mk_bool(x != y)
        if s:
            r = {'Lt': x < y, 'Le': x <= y, 'Gt': x > y, 'Ge': x >= y}[op]
        else:
            r = {'Lt': z3.ULT(x, y), 'Le': z3.ULE(x, y), 'Gt': z3.UGT(x, y), 'Ge': z3.UGE(x, y)}[op]
        return mk_bool(r)
    if op == 'Cmp':
        lt = int_binop('Lt', a, b)
        eq = int_binop('Eq', a, b)
        if isinstance(lt, bool) and isinstance(eq, bool):
            return Enum('Ordering', 'Less' if lt else ('Equal' if eq else 'Greater'))
        d = z3.If(to_z3bool(lt), z3.BitVecVal(-1, 64), z3.If(to_z3bool(eq), z3.BitVecVal(0, 64), z3.BitVecVal(1, 64)))
        return Enum('Ordering', None, (), discr=d)
    if op in ('Add', 'Sub', 'Mul', 'AddUnchecked', 'SubUnchecked', 'MulUnchecked'):
        base = op.replace('Unchecked', '')
        if conc:
            r = {'Add': a.v + b.v, 'Sub': a.v - b.v, 'Mul': a.v * b.v}[base]
            return mk_int(ty, r)
        x, y = to_bv(a), to_bv(b)
        r = {'Add': x + y, 'Sub': x - y, 'Mul': x * y}[base]
        return mk_int(ty, r)
    if op in ('AddWithOverflow', 'SubWithOverflow', 'MulWithOverflow'):
        base = op[:3]
        lo, hi = (-(1 << (w - 1)), (1 << (w - 1)) - 1) if s else (0, (1 << w) - 1)
        if conc:
            r = {'Add': a.v + b.v, 'Sub': a.v - b.v, 'Mul': a.v * b.v}[base]
            return Tup((mk_int(ty, r), not (lo <= r <= hi)))
        x, y = to_bv(a), to_bv(b)
        if base == 'Mul':
            ext = w
        else:
            ext = 1
        if s:
            xe, ye = z3.SignExt(ext, x), z3.SignExt(ext, y)
        else:
            xe, ye = z3.ZeroExt(ext, x), z3.ZeroExt(ext, y)
        re_ = {'Add': xe + ye, 'Sub': xe - ye, 'Mul': xe * ye}[base]
        r = z3.Extract(w - 1, 0, re_)
        if s:
            ov = z3.SignExt(ext, r) != re_
        else:
            ov = z3.ZeroExt(ext, r) != re_
        return Tup((mk_int(ty, r), mk_bool(ov)))
    if op in ('BitAnd', 'BitOr', 'BitXor'):
        if conc:
            ua, ub = a.v & ((1 << w) - 1), b.v & ((1 << w) - 1)
            r = {'BitAnd': ua & ub, 'BitOr': ua | ub, 'BitXor': ua ^ ub}[op]
            return mk_int(ty, r)
        x, y = to_bv(a), to_bv(b)
        r = {'BitAnd': x & y, 'BitOr': x | y, 'BitXor': x ^ y}[op]
        return mk_int(ty, r)
    if op in ('Div', 'Rem'):
        # MIR guards these with explicit asserts (division by zero / overflow)
        if conc:
            if b.v == 0:
                raise PanicExc('division by zero')
            q = abs(a.v) // abs(b.v)
            if (a.v < 0) != (b.v < 0):
                q = -q
            if op == 'Div':
                return mk_int(ty, q)
            return mk_int(ty, a.v - q * b.v)
        x, y = to_bv(a), to_bv(b)
        if s:
            r = (x / y) if op == 'Div' else z3.SRem(x, y)
        else:
            r = z3.UDiv(x, y) if op == 'Div' else z3.URem(x, y)
        return mk_int(ty, r)
    raise ExecError('int binop ' + op)


def int_shift(op, a, b):
    w, s = INT_TYPES[a.ty]
    left = op.startswith('Shl')
    if b.concrete:
        k = b.v
        wb = INT_TYPES[b.ty][0]
        k &= (1 << wb) - 1
        k = k & (w - 1) if True else k      # MIR Shl/Shr mask the shift amount (overflow is asserted separately)
        if a.concrete:
            if left:
                return mk_int(a.ty, a.v << k)
            if s:
                return mk_int(a.ty, a.v >> k)
            return mk_int(a.ty, (a.v & ((1 << w) - 1)) >> k)
        x = to_bv(a)
        kk = z3.BitVecVal(k, w)
        if left:
            return mk_int(a.ty, x << kk)
        return mk_int(a.ty, (x >> kk) if s else z3.LShR(x, kk))
    x = to_bv(a)
    y = to_bv(b)
    wy = y.size()
    if wy < w:
        y = z3.ZeroExt(w - wy, y)
    elif wy > w:
        y = z3.Extract(w - 1, 0, y)
    y = y & z3.BitVecVal(w - 1, w)
    if left:
        return mk_int(a.ty, x << y)
    return mk_int(a.ty, (x >> y) if s else z3.LShR(x, y))


def int_cast(v, ty):
    if not isinstance(v, Int):
        raise ExecError('int cast of %r' % (v,))
    w2, s2 = INT_TYPES[ty]
    w1, s1 = INT_TYPES[v.ty]
    if v.concrete:
        return mk_int(ty, v.v)
    x = v.v
    if w2 == w1:
        return Int(ty, x)
    if w2 < w1:
        return mk_int(ty, z3.Extract(w2 - 1, 0, x))
    if s1:
        return mk_int(ty, z3.SignExt(w2 - w1, x))
    return mk_int(ty, z3.ZeroExt(w2 - w1, x))


def bool_binop(op, a, b):
    if isinstance(a, bool) and isinstance(b, bool):
        return {'Eq': a == b, 'Ne': a != b, 'BitAnd': a and b, 'BitOr': a or b, 'BitXor': a != b,
                'Lt': (not a) and b, 'Le': (not a) or b, 'Gt': a and not b, 'Ge': a or not b}[op]
    x, y = to_z3bool(a), to_z3bool(b)
    if op == 'Eq':
        return mk_bool(x == y)
    if op in ('Ne', 'BitXor'):
        return mk_bool(z3.Xor(x, y))
    if op == 'BitAnd':
        return mk_bool(z3.And(x, y))
    if op == 'BitOr':
        return mk_bool(z3.Or(x, y))
    raise ExecError('bool binop ' + op)


def flt_binop(op, a, b):
    ty = a.ty
    if a.concrete and b.concrete:
        x, y = a.v, b.v
        if op in _CMP:
            return {'Eq': x == y, 'Ne': x != y, 'Lt': x < y, 'Le': x <= y, 'Gt': x > y, 'Ge': x >= y}[op]
        if op == 'Add':
            return mk_flt(ty, x + y)
        if op == 'Sub':
            return mk_flt(ty, x - y)
        if op == 'Mul':
            return mk_flt(ty, x * y)
        if op == 'Div':
            if y == 0.0:
                import math
                if x == 0.0 or x != x:
                    return mk_flt(ty, float('nan'))
                return mk_flt(ty, math.copysign(float('inf'), x) * math.copysign(1.0, y))
            return mk_flt(ty, x / y)
        if op == 'Rem':
            import math
            if y == 0.0 or math.isinf(x) or x != x or y != y:
                return mk_flt(ty, float('nan'))
            return mk_flt(ty, math.fmod(x, y))
        raise ExecError('float binop ' + op)
    x, y = to_fp(a), to_fp(b)
    if op in _CMP:
        return fp_cmp(op, x, y)
    if op == 'Add':
        return Flt(ty, z3.fpAdd(RNE, x, y))
    if op == 'Sub':
        return Flt(ty, z3.fpSub(RNE, x, y))
    if op == 'Mul':
        return Flt(ty, z3.fpMul(RNE, x, y))
    if op == 'Div':
        return Flt(ty, z3.fpDiv(RNE, x, y))
    if op == 'Rem':
        return Flt(ty, fp_fmod(x, y, ty))
    raise ExecError('float binop ' + op)


FMOD_SIDE_CONDITIONS = []
FMOD_OPERANDS = []

# Floating-point comparison results are abstracted to fresh Boolean atoms during exploration: feasibility and
# panic queries then stay in QF_BV (an over-approximation of feasibility, hence sound for "no path panics").
# The definitions are kept so that checks which need the exact meaning can add them back (fp_definitions).
FP_ABSTRACT = True
FP_ATOMS = {}        # ast id of the comparison -> (atom, comparison)
FP_BY_ATOM = {}      # atom name -> comparison


def fp_cmp(op, x, y, depth=0):
    """FP comparison with if-then-else operands distributed outwards, then abstracted to atoms"""
    if depth < 12:
        if z3.is_app_of(x, z3.Z3_OP_ITE):
            c, t, e = x.children()
            return mk_bool(z3.If(c, to_z3bool(fp_cmp(op, t, y, depth + 1)), to_z3bool(fp_cmp(op, e, y, depth + 1))))
        if z3.is_app_of(y, z3.Z3_OP_ITE):
            c, t, e = y.children()
            return mk_bool(z3.If(c, to_z3bool(fp_cmp(op, x, t, depth + 1)), to_z3bool(fp_cmp(op, x, e, depth + 1))))
    if op in ('Eq', 'Ne') and x.get_id() > y.get_id():
        x, y = y, x                      # fp.eq is symmetric: one atom per unordered pair
    r = {'Eq': lambda: z3.fpEQ(x, y), 'Ne': lambda: z3.Not(z3.fpEQ(x, y)), 'Lt': lambda: z3.fpLT(x, y),
         'Le': lambda: z3.fpLEQ(x, y), 'Gt': lambda: z3.fpGT(x, y), 'Ge': lambda: z3.fpGEQ(x, y)}[op]()
    if op == 'Ne':
        return b_not(fp_atom(z3.fpEQ(x, y)))
    return fp_atom(r)


def fp_atom(cmp_term):
    r = mk_bool(cmp_term)
    if isinstance(r, bool) or not FP_ABSTRACT:
        return r
    k = r.get_id()
    e = FP_ATOMS.get(k)
    if e is None:
        atom = z3.Bool('fpatom!%d' % len(FP_ATOMS))
        e = (atom, r)
        FP_ATOMS[k] = e
        FP_BY_ATOM[str(atom)] = r
    return e[0]


def fp_definitions(terms):
    """Definitions (atom == comparison) of every abstraction atom occurring in `terms`, transitively."""
    out = []
    seen_atoms = set()
    seen = set()
    stack = list(terms)
    while stack:
        t = stack.pop()
        if not z3.is_expr(t):
            continue
        i = t.get_id()
        if i in seen:
            continue
        seen.add(i)
        if z3.is_const(t) and t.decl().kind() == z3.Z3_OP_UNINTERPRETED and str(t).startswith('fpatom!'):
            nm = str(t)
            if nm not in seen_atoms:
                seen_atoms.add(nm)
                d = FP_BY_ATOM.get(nm)
                if d is not None:
                    out.append(t == d)
                    stack.append(d)
            continue
        stack.extend(t.children())
    return out


def fp_fmod(x, y, ty):
    """C fmod (truncated remainder) for *integral* operands of magnitude < 2^62, via signed bit-vector
    remainder.  The side condition (operands integral and in range) is recorded and must be discharged
    by the check that uses the result (see DESIGN §1.2); z3's fp.rem is IEEE remainder and is not used."""
    sort = FLOAT_TYPES[ty]
    xi = z3.fpToSBV(z3.RTZ(), x, z3.BitVecSort(64))
    yi = z3.fpToSBV(z3.RTZ(), y, z3.BitVecSort(64))
    lim = z3.FPVal(2.0 ** 62, sort)
    side = z3.And(z3.fpEQ(z3.fpRoundToIntegral(z3.RTZ(), x), x), z3.fpEQ(z3.fpRoundToIntegral(z3.RTZ(), y), y),
                  z3.fpLT(z3.fpAbs(x), lim), z3.fpLT(z3.fpAbs(y), lim), z3.Not(z3.fpIsZero(y)))
    FMOD_SIDE_CONDITIONS.append(side)
    FMOD_OPERANDS.append((x, y))
    r = z3.SRem(xi, yi)
    res = z3.fpSignedToFP(RNE, r, sort)
    # NOTE: C fmod returns -0.0 for a zero result of a negative dividend; +0.0 is produced here.  The sign of a zero
    # is unobservable through the comparisons and additions applied to it in cpr.rs (stated in DESIGN §1.2).
    return res


def int_to_float(v, ty):
    sort = FLOAT_TYPES[ty]
    if isinstance(v, Int):
        if v.concrete:
            return mk_flt(ty, float(v.v))
        w, s = INT_TYPES[v.ty]
        if s:
            return Flt(ty, z3.fpSignedToFP(RNE, v.v, sort))
        return Flt(ty, z3.fpUnsignedToFP(RNE, v.v, sort))
    raise ExecError('IntToFloat of %r' % (v,))


def float_to_int(v, ty):
    w, s = INT_TYPES[ty]
    lo, hi = (-(1 << (w - 1)), (1 << (w - 1)) - 1) if s else (0, (1 << w) - 1)
    if v.concrete:
        x = v.v
        if x != x:
            return Int(ty, 0)
        if x == float('inf'):
            return Int(ty, hi)
        if x == float('-inf'):
            return Int(ty, lo)
        t = int(x)
        return Int(ty, max(lo, min(hi, t)))
    sort = FLOAT_TYPES[v.ty]
    x = v.v
    # saturating cast
    if s:
        conv = z3.fpToSBV(z3.RTZ(), x, z3.BitVecSort(w))
    else:
        conv = z3.fpToUBV(z3.RTZ(), x, z3.BitVecSort(w))
    flo = z3.FPVal(float(lo), sort)
    fhi = z3.FPVal(float(hi), sort)      # rounds up to 2^w for wide types: handled by using >=
    # The three guards are floating-point predicates: as abstraction atoms (fp_atom) they keep path conditions that
    # mention the cast result in the bit-vector fragment.  When none of them holds, lo < x < float(hi), so the
    # truncated value is strictly inside (lo, hi): stating that on the bit-vector side lets "cast == MAX"
    # (the overflow check of `x as u32 + 1`) be decided without floating-point reasoning.
    is_nan = to_z3bool(fp_atom(z3.fpIsNaN(x)))
    is_le = to_z3bool(fp_atom(z3.fpLEQ(x, flo)))
    is_ge = to_z3bool(fp_atom(z3.fpGEQ(x, fhi)))
    hi_bv = z3.BitVecVal(hi, w)
    lo_bv = z3.BitVecVal(lo & ((1 << w) - 1), w)
    if s:
        inside = z3.And(conv < hi_bv, conv > lo_bv)
        clamped = z3.If(inside, conv, z3.BitVecVal(0, w))
    else:
        clamped = z3.If(z3.ULT(conv, hi_bv), conv, hi_bv - 1)
    r = z3.If(is_nan, z3.BitVecVal(0, w), z3.If(is_le, lo_bv, z3.If(is_ge, hi_bv, clamped)))
    return mk_int(ty, r)


def float_to_float(v, ty):
    if v.ty == ty:
        return v
    if v.concrete:
        return mk_flt(ty, v.v)
    return Flt(ty, z3.fpFPToFP(RNE, v.v, FLOAT_TYPES[ty]))
