"""Builtin registry + core/alloc builtins (trusted base, see DESIGN §1.1 builtins 3)."""
import re
import z3

from .values import *   # noqa
from .execu import (ExecError, PanicExc, Call, Choices, Panic, Diverge, last_seg, type_key, split_path,
                    int_cast, int_binop, is_boolish, strip_generic)


class Builtins:
    def __init__(self):
        self.paths = {}        # 'Vec::new' -> fn     (matched against the last two / last one path segments)
        self.traits = {}       # (trait_last, method) -> [(pred(info) or None, fn)]
        self.dyn = {}          # (trait_last, method, rty) -> fn ; rty may be '*'

    # registration ---------------------------------------------------------------
    def path(self, *names):
        def deco(fn):
            for n in names:
                self.paths[n] = fn
            return fn
        return deco

    def trait(self, trait, method, pred=None):
        def deco(fn):
            self.traits.setdefault((trait, method), []).append((pred, fn))
            return fn
        return deco

    def dynamic(self, trait, method, rty='*'):
        def deco(fn):
            self.dyn[(trait, method, rty)] = fn
            return fn
        return deco

    # lookup ---------------------------------------------------------------------
    def lookup(self, info):
        if info['trait'] is not None:
            lst = self.traits.get((last_seg(info['trait']), info['method']))
            if lst:
                for pred, fn in lst:
                    if pred is None or pred(info):
                        return fn
            return None
        p = info['path']
        segs = p.split('::')
        for k in (3, 2, 1):
            if len(segs) >= k:
                key = '::'.join(segs[-k:])
                fn = self.paths.get(key)
                if fn is not None:
                    return fn
        return None

    def lookup_dyn(self, trait, method, rty):
        t = last_seg(trait) if trait else None
        fn = self.dyn.get((t, method, rty))
        if fn is None:
            fn = self.dyn.get((t, method, '*'))
        if fn is None:
            lst = self.traits.get((t, method))
            if lst:
                for pred, f in lst:
                    if pred is None:
                        return f
        return fn


B = Builtins()


# ------------------------------------------------------------------------------------------ helpers
def mk_ok(v):
    return Enum('Result', 'Ok', (v,))


def mk_err(e):
    return Enum('Result', 'Err', (e,))


def mk_some(v):
    return Enum('Option', 'Some', (v,))


NONE = Enum('Option', 'None', ())


def generic_args(g):
    """'<A, B>' -> ['A','B']"""
    if not g:
        return []
    from .mirparse import split_top
    return split_top(g.strip()[1:-1])


def self_generic_args(selfty):
    i = selfty.find('<')
    if i < 0:
        return []
    from .mirparse import split_top, find_matching
    j = find_matching(selfty, i)
    return split_top(selfty[i + 1:j])


def deref_all(ex, st, v):
    n = 0
    while isinstance(v, Ref) and n < 8:
        v = ex.read_ref(st, v)
        n += 1
    return v


def concrete_usize(v, what='value'):
    if isinstance(v, Int) and v.concrete:
        return v.v
    if isinstance(v, int):
        return v
    raise ExecError('%s must be concrete here, got %r' % (what, v))


# ------------------------------------------------------------------------------------------ Try / ?
@B.trait('Try', 'branch')
def try_branch(ex, st, info, args):
    v = args[0]
    if not isinstance(v, Enum):
        raise ExecError('Try::branch on %r' % (v,))
    if v.ty == 'Result':
        if v.variant == 'Ok':
            return Enum('ControlFlow', 'Continue', (v.f[0],))
        return Enum('ControlFlow', 'Break', (Enum('Result', 'Err', (v.f[0],)),))
    if v.ty == 'Option':
        if v.variant == 'Some':
            return Enum('ControlFlow', 'Continue', (v.f[0],))
        return Enum('ControlFlow', 'Break', (NONE,))
    raise ExecError('Try::branch on ' + v.ty)


@B.trait('FromResidual', 'from_residual')
def from_residual(ex, st, info, args):
    v = args[0]
    if not isinstance(v, Enum):
        # `x?` on an Option inside a function returning Option: the residual is the constant None::<Infallible>
        if type_key(info['selfty']) == 'Option':
            return NONE
        raise ExecError('from_residual on %r' % (v,))
    if v.ty == 'Result':
        e = v.f[0]
        # error conversion through From
        tr = info['trait']
        if 'TryFromIntError' in tr and 'DekuError' in info['selfty']:
            e = Enum('DekuError', 'Parse', (Opaque('string', 'error parsing int'),))
        elif 'TryFromSliceError' in tr and 'DekuError' in info['selfty']:
            e = Enum('DekuError', 'Parse', (Opaque('string', 'error parsing from slice'),))
        return Enum('Result', 'Err', (e,))
    if v.ty == 'Option':
        return NONE
    raise ExecError('from_residual on ' + v.ty)


# ------------------------------------------------------------------------------------------ conversions
def _is_int_ty(t):
    return t.strip() in INT_TYPES


@B.trait('From', 'from', lambda info: _is_int_ty(info['selfty']) or info['selfty'].strip() in FLOAT_TYPES)
def from_prim(ex, st, info, args):
    ty = info['selfty'].strip()
    v = args[0]
    if ty in INT_TYPES:
        if is_boolish(v):
            return ex.cast(st, v, ty, 'IntToInt')
        return int_cast(v, ty)
    from .execu import int_to_float, float_to_float
    if isinstance(v, Int):
        return int_to_float(v, ty)
    return float_to_float(v, ty)


@B.trait('Into', 'into', lambda info: True)
def into_any(ex, st, info, args):
    tgt = generic_args(info['trait'][info['trait'].find('<'):])[0] if '<' in info['trait'] else None
    v = args[0]
    if tgt and tgt.strip() in INT_TYPES and isinstance(v, Int):
        return int_cast(v, tgt.strip())
    if tgt and tgt.strip() == type_key(info['selfty']):
        return v
    if tgt and type_key(tgt) == 'Cow':
        return Opaque('string', 'cow')
    if tgt and type_key(tgt) == 'String':
        return string_from(ex, st, info, args)
    if tgt and tgt.strip() in FLOAT_TYPES and isinstance(v, (Int, Flt)):
        from .execu import Executor as _E      # int -> float conversions are exact for the lossless `Into` impls
        return ex.cast(st, v, tgt.strip(), 'IntToFloat' if isinstance(v, Int) else 'FloatToFloat')
    if tgt and type_key(tgt) == 'Option':
        return mk_some(v)
    raise ExecError('Into::into %s' % info['raw'])


@B.trait('TryFrom', 'try_from', lambda info: _is_int_ty(info['selfty']))
def try_from_int(ex, st, info, args):
    ty = info['selfty'].strip()
    v = args[0]
    if not isinstance(v, Int):
        raise ExecError('try_from of %r' % (v,))
    w, s = INT_TYPES[ty]
    lo, hi = (-(1 << (w - 1)), (1 << (w - 1)) - 1) if s else (0, (1 << w) - 1)
    err = mk_err(Struct('TryFromIntError', (UNIT,)))
    if v.concrete:
        if lo <= v.v <= hi:
            return mk_ok(Int(ty, v.v))
        return err
    w1, s1 = INT_TYPES[v.ty]
    x = v.v
    # compare in a width large enough for both
    W = max(w, w1) + 1
    xe = z3.SignExt(W - w1, x) if s1 else z3.ZeroExt(W - w1, x)
    inr = z3.And(xe >= z3.BitVecVal(lo, W), xe <= z3.BitVecVal(hi, W))
    return Choices([(inr, lambda st2: mk_ok(int_cast(v, ty))), (z3.Not(inr), lambda st2: err)])


@B.trait('TryInto', 'try_into')
def try_into_any(ex, st, info, args):
    raise ExecError('TryInto: ' + info['raw'])


@B.path('u32::to_be_bytes', 'u16::to_be_bytes', 'u64::to_be_bytes', 'core::num::to_be_bytes')
def to_be_bytes(ex, st, info, args):
    v = args[0]
    w, _ = INT_TYPES[v.ty]
    n = w // 8
    if v.concrete:
        u = v.v & ((1 << w) - 1)
        return Arr([Int('u8', (u >> (8 * (n - 1 - i))) & 0xff) for i in range(n)])
    return Arr([mk_int('u8', z3.Extract(w - 1 - 8 * i, w - 8 - 8 * i, v.v)) for i in range(n)])


# ------------------------------------------------------------------------------------------ Option / Result
@B.path('Result::unwrap', 'Result::expect')
def result_unwrap(ex, st, info, args):
    v = args[0]
    if v.variant == 'Ok':
        return v.f[0]
    return Panic('called `Result::unwrap()` on an `Err` value: %r' % (v.f[0],))


@B.path('Option::unwrap', 'Option::expect')
def option_unwrap(ex, st, info, args):
    v = args[0]
    if v.variant == 'Some':
        return v.f[0]
    return Panic('called `Option::unwrap()` on a `None` value')


@B.path('Result::ok')
def result_ok(ex, st, info, args):
    v = args[0]
    return mk_some(v.f[0]) if v.variant == 'Ok' else NONE


@B.path('Result::is_ok')
def result_is_ok(ex, st, info, args):
    return deref_all(ex, st, args[0]).variant == 'Ok'


@B.path('Option::is_some')
def option_is_some(ex, st, info, args):
    o = deref_all(ex, st, args[0])
    if o.variant is None:
        return mk_bool(o.discr == z3.BitVecVal(1, 64))
    return o.variant == 'Some'


@B.path('Option::is_none')
def option_is_none(ex, st, info, args):
    o = deref_all(ex, st, args[0])
    if o.variant is None:
        return mk_bool(o.discr == z3.BitVecVal(0, 64))
    return o.variant == 'None'


@B.path('Result::map_err')
def result_map_err(ex, st, info, args):
    v, f = args
    if v.variant == 'Ok':
        return v
    return Call(f, [f, Tup((v.f[0],))], lambda st2, r: mk_err(r)) if isinstance(f, Closure) else \
        Call(f, [v.f[0]], lambda st2, r: mk_err(r))


@B.path('Result::map')
def result_map(ex, st, info, args):
    v, f = args
    if v.variant == 'Err':
        return v
    return call_fn(f, [v.f[0]], lambda st2, r: mk_ok(r))


@B.path('Option::map')
def option_map(ex, st, info, args):
    v, f = args
    if v.variant == 'None':
        return v
    return call_fn(f, [v.f[0]], lambda st2, r: mk_some(r))


@B.path('Option::and_then')
def option_and_then(ex, st, info, args):
    v, f = args
    if v.variant == 'None':
        return v
    return call_fn(f, [v.f[0]], lambda st2, r: r)


@B.path('Option::map_or_else')
def option_map_or_else(ex, st, info, args):
    v, d, f = args
    if v.variant == 'None':
        return call_fn(d, [], lambda st2, r: r)
    return call_fn(f, [v.f[0]], lambda st2, r: r)


@B.path('Option::as_ref', 'Option::as_mut')
def option_as_ref(ex, st, info, args):
    r = args[0]
    v = ex.read_ref(st, r)
    if v.variant == 'None':
        return NONE
    inner = Ref(r.base, r.projs + (('downcast', 'Some'), ('field', 0, '?')), r.mut)
    if v.variant is None:
        if not v.f:
            return NONE
        return Enum('Option', None, (inner,), discr=v.discr)
    return mk_some(inner)


def call_fn(f, argv, k):
    """Call a closure / fn item value with positional args."""
    if isinstance(f, Closure):
        return Call(f, [f, Tup(tuple(argv))], k)
    if isinstance(f, Ref):
        return Call(f, [f, Tup(tuple(argv))], k)
    if isinstance(f, FnDef):
        return Call(f.name, list(argv), k)
    raise ExecError('call of %r' % (f,))


@B.trait('Fn', 'call', lambda info: not info['selfty'].startswith('{closure@'))
@B.trait('FnMut', 'call_mut', lambda info: not info['selfty'].startswith('{closure@'))
@B.trait('FnOnce', 'call_once', lambda info: not info['selfty'].startswith('{closure@'))
def fn_call(ex, st, info, args):
    f = args[0]
    f = deref_all(ex, st, f) if isinstance(f, Ref) else f
    return call_fn(f, list(args[1].f), lambda st2, r: r)


# ------------------------------------------------------------------------------------------ cmp / clone / default
def eq_values(ex, st, a, b, k):
    """Structural equality with user `eq` where implemented; continuation-passing.  k(st, boolish)."""
    while isinstance(a, Ref) and isinstance(b, Ref):
        a = ex.read_ref(st, a)
        b = ex.read_ref(st, b)
    if isinstance(a, Int) and isinstance(b, Int):
        return k(st, int_binop('Eq', a, b))
    if is_boolish(a) and is_boolish(b):
        return k(st, ex.binop(st, 'Eq', a, b))
    if isinstance(a, Flt) and isinstance(b, Flt):
        return k(st, ex.binop(st, 'Eq', a, b))
    if isinstance(a, StrLit) and isinstance(b, StrLit):
        return k(st, a.s == b.s)
    if isinstance(a, (Struct, Enum)) and isinstance(b, (Struct, Enum)) and a.ty == b.ty:
        name = ex.prog.find_method(a.ty, 'PartialEq', 'eq')
        if name is not None:
            return Call(ex.prog.items[name], [Ref(('V', a)), Ref(('V', b))], k)
    if isinstance(a, Enum) and isinstance(b, Enum) and a.ty == 'Option' and (a.variant is None or b.variant is None):
        da, db = opt_discr(a), opt_discr(b)
        same = mk_bool(da == db)
        if a.f and b.f:
            both_some = mk_bool(z3.And(da == z3.BitVecVal(1, 64), db == z3.BitVecVal(1, 64)))
            return eq_values(ex, st, a.f[0], b.f[0],
                             lambda st2, r: k(st2, b_and(same, b_or(b_not(both_some), r))))
        return k(st, same)
    if isinstance(a, Enum) and isinstance(b, Enum):
        if a.variant is None or b.variant is None:
            return k(st, ex.binop(st, 'Eq', a, b))
        if a.variant != b.variant:
            return k(st, False)
        return eq_seq(ex, st, a.f, b.f, k)
    if isinstance(a, (Tup, Struct)) and type(a) is type(b):
        return eq_seq(ex, st, a.f, b.f, k)
    if isinstance(a, (Arr, Vec)) and isinstance(b, (Arr, Vec)):
        if len(a.e) != len(b.e):
            return k(st, False)
        return eq_seq(ex, st, a.e, b.e, k)
    if isinstance(a, RString) and isinstance(b, RString):
        return k(st, string_eq(a, b))
    if isinstance(a, (RString, StrLit)) and isinstance(b, (RString, StrLit)):
        a2 = a if isinstance(a, RString) else RString((a.s,) if a.s else ())
        b2 = b if isinstance(b, RString) else RString((b.s,) if b.s else ())
        return k(st, string_eq(a2, b2))
    raise ExecError('eq_values on %r / %r' % (a, b))


def eq_seq(ex, st, xs, ys, k, acc=True):
    if not xs:
        return k(st, acc)
    if acc is False:
        return k(st, False)

    def cont(st2, r):
        return eq_seq(ex, st2, xs[1:], ys[1:], k, b_and(acc, r))
    return eq_values(ex, st, xs[0], ys[0], cont)


def string_eq(a, b):
    ca, cb = string_chars(a), string_chars(b)
    if ca is None or cb is None:
        raise ExecError('string equality on formatted strings')
    if len(ca) != len(cb):
        return False
    acc = True
    for x, y in zip(ca, cb):
        acc = b_and(acc, int_binop('Eq', int_cast(x, 'u32'), int_cast(y, 'u32')))
    return acc


def _fixed_hex(spec, v):
    """characters of a symbolic integer printed as zero-padded hex of exactly its full width ({:08x} of a u32)"""
    parts = spec.split(':')
    if parts[0] not in ('lower_hex', 'upper_hex'):
        return None
    flags, width = 0, None
    for p in parts[1:]:
        if p.startswith('f'):
            flags = int(p[1:], 16)
        elif p.startswith('w'):
            width = int(p[1:])
    w, _ = INT_TYPES[v.ty]
    if width is None or not (flags & (1 << 24)) or flags & ~((1 << 24) | (0x7f << 25) | 0x1fffff) or width * 4 != w:
        return None
    x = to_bv(v)
    base = ord('a') if parts[0] == 'lower_hex' else ord('A')
    out = []
    for i in reversed(range(width)):
        nib = z3.ZeroExt(28, z3.Extract(4 * i + 3, 4 * i, x))
        out.append(mk_int('char', z3.If(z3.ULT(nib, 10), nib + 48, nib + (base - 10))))
    return out


def string_chars(s):
    out = []
    for seg in s.segs:
        if isinstance(seg, str):
            out.extend(Int('char', ord(c)) for c in seg)
        elif seg[0] == 'chars':
            out.extend(seg[1])
        elif seg[0] == 'val' and isinstance(seg[2], Int) and seg[2].concrete:
            # a concrete integer rendered by core::fmt (decimal / lower hex, width, zero padding)
            from .validate import render_val
            txt = render_val(seg[1], seg[2], None)
            if txt.startswith('<'):
                return None
            out.extend(Int('char', ord(c)) for c in txt)
        elif seg[0] == 'val' and isinstance(seg[2], Int) and _fixed_hex(seg[1], seg[2]) is not None:
            out.extend(_fixed_hex(seg[1], seg[2]))
        elif seg[0] == 'val' and isinstance(seg[2], (RString, StrLit)) and seg[1].split(':')[0] == 'display' and ':w' not in seg[1]:
            inner = string_chars(seg[2]) if isinstance(seg[2], RString) else [Int('char', ord(c)) for c in seg[2].s]
            if inner is None:
                return None
            out.extend(inner)
        else:
            return None
    return out


@B.trait('PartialEq', 'eq')
def partial_eq(ex, st, info, args):
    return eq_values(ex, st, args[0], args[1], lambda st2, r: r)


@B.trait('PartialEq', 'ne')
def partial_ne(ex, st, info, args):
    return eq_values(ex, st, args[0], args[1], lambda st2, r: b_not(r))


@B.trait('Clone', 'clone')
def clone_any(ex, st, info, args):
    v = args[0]
    if isinstance(v, Ref):
        v = ex.read_ref(st, v)
    if isinstance(v, (Vec, RString)):
        n = len(v.e) if isinstance(v, Vec) else 0
        ex.builtins_alloc(st, n)
    return v


@B.trait('Default', 'default')
def default_any(ex, st, info, args):
    ty = info['selfty'].strip()
    if ty in INT_TYPES:
        return Int(ty, 0)
    if ty == 'bool':
        return False
    if ty in FLOAT_TYPES:
        return mk_flt(ty, 0.0)
    if type_key(ty) == 'Option':
        return NONE
    if type_key(ty) == 'Vec':
        return Vec(())
    if type_key(ty) == 'String':
        return RString(())
    if type_key(ty) == 'BTreeMap':
        return BMap(())
    if ty.startswith('['):
        # [T; N]
        m = re.match(r'^\[(.*); (\d+)\]$', ty)
        if m:
            inner = m.group(1).strip()
            n = int(m.group(2))
            if type_key(inner) == 'Option':
                return Arr([NONE] * n)
            if inner in INT_TYPES:
                return Arr([Int(inner, 0)] * n)
    raise ExecError('Default::default for ' + ty)


@B.path('cmp::max')
def cmp_max(ex, st, info, args):
    a, b = args
    lt = int_binop('Lt', b, a)      # max returns b unless a > b ... std: max_by: if a > b {a} else {b}
    if isinstance(lt, bool):
        return a if lt else b
    return ite_value(to_z3bool(lt), a, b)


@B.path('cmp::min')
def cmp_min(ex, st, info, args):
    a, b = args
    lt = int_binop('Lt', b, a)
    if isinstance(lt, bool):
        return b if lt else a
    return ite_value(to_z3bool(lt), b, a)


@B.path('hint::must_use', 'must_use')
def must_use(ex, st, info, args):
    return args[0]


@B.path('mem::swap')
def mem_swap(ex, st, info, args):
    a, b = args
    va, vb = ex.read_ref(st, a), ex.read_ref(st, b)
    ex.write_ref(st, a, vb)
    ex.write_ref(st, b, va)
    return UNIT


@B.path('mem::replace')
def mem_replace(ex, st, info, args):
    a, nv = args
    old = ex.read_ref(st, a)
    ex.write_ref(st, a, nv)
    return old


@B.path('mem::take')
def mem_take(ex, st, info, args):
    raise ExecError('mem::take unsupported')


@B.path('mem::drop', 'drop')
def mem_drop(ex, st, info, args):
    return UNIT


# ------------------------------------------------------------------------------------------ Vec / slices
@B.path('Vec::new')
def vec_new(ex, st, info, args):
    return Vec(())


@B.path('Vec::with_capacity')
def vec_with_capacity(ex, st, info, args):
    return Vec(())


@B.path('vec::from_elem')
def vec_from_elem(ex, st, info, args):
    v, n = args
    n = concrete_usize(n, 'vec length')
    ex.builtins_alloc(st, n)
    return Vec([v] * n)


@B.path('Vec::len')
def vec_len(ex, st, info, args):
    v = deref_all(ex, st, args[0])
    return Int('usize', len(v.e))


@B.path('Vec::is_empty')
def vec_is_empty(ex, st, info, args):
    v = deref_all(ex, st, args[0])
    return len(v.e) == 0


@B.path('Vec::push')
def vec_push(ex, st, info, args):
    r, x = args
    v = ex.read_ref(st, r)
    ex.builtins_alloc(st, 1)
    ex.write_ref(st, r, Vec(v.e + (x,)))
    return UNIT


@B.path('Vec::extend_from_slice')
def vec_extend_from_slice(ex, st, info, args):
    r, s = args
    v = ex.read_ref(st, r)
    sv = ex.read_ref(st, s)
    ex.builtins_alloc(st, len(sv.e))
    ex.write_ref(st, r, Vec(v.e + tuple(sv.e)))
    return UNIT


@B.path('Vec::append')
def vec_append(ex, st, info, args):
    r, o = args
    v = ex.read_ref(st, r)
    ov = ex.read_ref(st, o)
    ex.builtins_alloc(st, len(ov.e))
    ex.write_ref(st, r, Vec(v.e + tuple(ov.e)))
    ex.write_ref(st, o, Vec(()))
    return UNIT


@B.path('Vec::clear')
def vec_clear(ex, st, info, args):
    ex.write_ref(st, args[0], Vec(()))
    return UNIT


@B.path('slice::into_vec', 'slice::hack::into_vec', 'into_vec')
def slice_into_vec(ex, st, info, args):
    b = args[0]
    v = b.v if isinstance(b, Box) else deref_all(ex, st, b)
    ex.builtins_alloc(st, len(v.e))
    return Vec(v.e)


@B.trait('Deref', 'deref')
@B.trait('DerefMut', 'deref_mut')
def deref_generic(ex, st, info, args):
    # Vec<T> -> [T], String -> str: same location, slice view
    return args[0]


@B.trait('Borrow', 'borrow')
@B.trait('BorrowMut', 'borrow_mut')
def borrow_generic(ex, st, info, args):
    return args[0]


@B.trait('AsRef', 'as_ref')
def as_ref_generic(ex, st, info, args):
    return args[0]


@B.trait('Index', 'index')
@B.trait('IndexMut', 'index_mut')
def index_generic(ex, st, info, args):
    r, idx = args
    tr = info['trait']
    if isinstance(idx, Struct) and idx.ty in ('RangeFrom', 'RangeTo', 'Range', 'RangeFull', 'RangeInclusive',
                                              'RangeToInclusive'):
        v = ex.read_ref(st, r)
        n = len(ex.elems_of(v))
        if idx.ty == 'RangeFrom':
            a, b = concrete_usize(idx.f[0]), n
        elif idx.ty == 'RangeTo':
            a, b = 0, concrete_usize(idx.f[0])
        elif idx.ty == 'Range':
            a, b = concrete_usize(idx.f[0]), concrete_usize(idx.f[1])
        elif idx.ty == 'RangeFull':
            a, b = 0, n
        else:
            raise ExecError('index with ' + idx.ty)
        if a > b:
            return Panic('slice index starts at %d but ends at %d' % (a, b))
        if b > n:
            return Panic('range end index %d out of range for slice of length %d' % (b, n))
        return Ref(r.base, r.projs + (('range', a, b),), r.mut)
    if isinstance(idx, Int):
        v = ex.read_ref(st, r)
        n = len(ex.elems_of(v))
        if idx.concrete:
            if not (0 <= idx.v < n):
                return Panic('index out of bounds: the len is %d but the index is %d' % (n, idx.v))
            return Ref(r.base, r.projs + (('idx', idx),), r.mut)
        # symbolic index: materialise the selected element as a value reference (read-only use)
        return Ref(('V', ex.select_symbolic(st, ex.elems_of(v), idx)))
    raise ExecError('Index::index with %r' % (idx,))


@B.path('slice::len', '[T]::len')
def slice_len(ex, st, info, args):
    v = deref_all(ex, st, args[0])
    return Int('usize', len(ex.elems_of(v)))


@B.path('slice::iter', 'slice::iter_mut')
def slice_iter(ex, st, info, args):
    r = args[0]
    v = ex.read_ref(st, r)
    return Struct('SliceIter', (r, Int('usize', 0), Int('usize', len(ex.elems_of(v)))))


@B.path('slice::fill')
def slice_fill(ex, st, info, args):
    r, x = args
    v = ex.read_ref(st, r)
    ex.write_ref(st, r, type(v)([x] * len(v.e)))
    return UNIT


@B.path('slice::copy_from_slice')
def slice_copy_from_slice(ex, st, info, args):
    r, s = args
    v = ex.read_ref(st, r)
    sv = ex.read_ref(st, s)
    if len(v.e) != len(sv.e):
        return Panic('source slice length does not match destination slice length')
    ex.write_ref(st, r, type(v)(sv.e))
    return UNIT


# ------------------------------------------------------------------------------------------ iterators
@B.trait('IntoIterator', 'into_iter')
def into_iter(ex, st, info, args):
    v = args[0]
    if isinstance(v, Struct) and (v.ty in ('Range', 'RangeInclusive', 'SliceIter', 'VecIntoIter', 'MapIter',
                                           'MapKeys', 'MapIterAdapter', 'MapAdapter', 'Enumerate') or v.ty in ITER_EXT):
        if v.ty == 'RangeInclusive' and len(v.f) == 2:
            return Struct('RangeInclusive', (v.f[0], v.f[1], False))
        return v
    if isinstance(v, Vec):
        return Struct('VecIntoIter', (v, Int('usize', 0)))
    if isinstance(v, Ref):
        tv = ex.read_ref(st, v)
        if isinstance(tv, (Vec, Arr)):
            return Struct('SliceIter', (v, Int('usize', 0), Int('usize', len(tv.e))))
        if isinstance(tv, BMap):
            return Struct('MapIter', (v, Int('usize', 0)))
    if isinstance(v, Arr):
        return Struct('VecIntoIter', (Vec(v.e), Int('usize', 0)))
    raise ExecError('into_iter on %r' % (v,))


@B.path('RangeInclusive::new')
def range_incl_new(ex, st, info, args):
    return Struct('RangeInclusive', (args[0], args[1], False))


ITER_EXT = {}      # struct name -> next handler (mirsym/iter_bi.py)


def iter_next(ex, st, itref, k):
    """Generic Iterator::next over the builtin iterator structs; k(st, Option)."""
    it = ex.read_ref(st, itref)
    if not isinstance(it, Struct):
        raise ExecError('next on %r' % (it,))
    if it.ty == 'Range':
        a, b = it.f
        lt = int_binop('Lt', a, b)
        if not isinstance(lt, bool):
            raise ExecError('symbolic range bounds')
        if not lt:
            return k(st, NONE)
        ex.write_ref(st, itref, Struct('Range', (int_binop('Add', a, Int(a.ty, 1)), b)))
        return k(st, mk_some(a))
    if it.ty == 'RangeInclusive':
        a, b, done = it.f
        if done:
            return k(st, NONE)
        lt = int_binop('Lt', a, b)
        eq = int_binop('Eq', a, b)
        if not isinstance(lt, bool):
            raise ExecError('symbolic range bounds')
        if lt:
            ex.write_ref(st, itref, Struct('RangeInclusive', (int_binop('Add', a, Int(a.ty, 1)), b, False)))
            return k(st, mk_some(a))
        if eq:
            ex.write_ref(st, itref, Struct('RangeInclusive', (a, b, True)))
            return k(st, mk_some(a))
        return k(st, NONE)
    if it.ty == 'SliceIter':
        r, i, n = it.f
        if i.v >= n.v:
            return k(st, NONE)
        ex.write_ref(st, itref, Struct('SliceIter', (r, Int('usize', i.v + 1), n)))
        return k(st, mk_some(Ref(r.base, r.projs + (('idx', i),), r.mut)))
    if it.ty == 'VecIntoIter':
        v, i = it.f
        if i.v >= len(v.e):
            return k(st, NONE)
        ex.write_ref(st, itref, Struct('VecIntoIter', (v, Int('usize', i.v + 1))))
        return k(st, mk_some(v.e[i.v]))
    if it.ty == 'MapAdapter':
        inner, f = it.f
        inner_ref = Ref(itref.base, itref.projs + (('field', 0, '?'),), True)

        def cont(st2, o):
            if o.variant == 'None':
                return k(st2, NONE)
            return call_fn(f, [o.f[0]], lambda st3, r: k(st3, mk_some(r)))
        return iter_next(ex, st, inner_ref, cont)
    if it.ty == 'Enumerate':
        inner, cnt = it.f
        inner_ref = Ref(itref.base, itref.projs + (('field', 0, '?'),), True)

        def cont2(st2, o):
            if o.variant == 'None':
                return k(st2, NONE)
            cur = ex.read_ref(st2, itref)
            ex.write_ref(st2, itref, Struct('Enumerate', (cur.f[0], Int('usize', cnt.v + 1))))
            return k(st2, mk_some(Tup((cnt, o.f[0]))))
        return iter_next(ex, st, inner_ref, cont2)
    if it.ty in ('MapIter', 'MapKeys'):
        r, i = it.f
        m = ex.read_ref(st, r)
        if i.v >= len(m.ents):
            return k(st, NONE)
        ex.write_ref(st, itref, Struct(it.ty, (r, Int('usize', i.v + 1))))
        kref = Ref(('V', m.ents[i.v][0]))
        if it.ty == 'MapKeys':
            return k(st, mk_some(kref))
        vref = Ref(r.base, r.projs + (('mapval', i.v),), r.mut)
        return k(st, mk_some(Tup((kref, vref))))
    h = ITER_EXT.get(it.ty)
    if h is not None:
        return h(ex, st, itref, it, k)
    raise ExecError('Iterator::next on ' + it.ty)


@B.trait('Iterator', 'next')
def iterator_next(ex, st, info, args):
    return iter_next(ex, st, args[0], lambda st2, o: o)


@B.trait('Iterator', 'map')
def iterator_map(ex, st, info, args):
    return Struct('MapAdapter', (args[0], args[1]))


@B.trait('Iterator', 'enumerate')
def iterator_enumerate(ex, st, info, args):
    return Struct('Enumerate', (args[0], Int('usize', 0)))


@B.trait('Iterator', 'collect')
def iterator_collect(ex, st, info, args):
    it = args[0]
    tgt = generic_args(info['generics'])[0] if info['generics'] else ''
    cell = st.new_cell(it)
    itref = Ref(('C', cell), (), True)
    outer = type_key(tgt)
    inner = tgt
    if outer in ('Result', 'Option'):
        # collect::<Result<V, E>>() / collect::<Option<V>>(): stop at the first Err / None
        inner = generic_args(tgt[tgt.find('<'):])[0]

    def build(st2, acc):
        ik = type_key(inner)
        if ik == 'String':
            ex.builtins_alloc(st2, len(acc))
            chars = []
            for a in acc:
                a = ex.read_ref(st2, a) if isinstance(a, Ref) else a
                if isinstance(a, Int):
                    chars.append(a)
                elif isinstance(a, (RString, StrLit)):
                    cs = string_chars(a) if isinstance(a, RString) else [Int('char', ord(c)) for c in a.s]
                    if cs is None:
                        raise ExecError('collect of formatted strings into String')
                    chars.extend(cs)
                else:
                    raise ExecError('collect into String of %r' % (a,))
            if all(isinstance(c, Int) and c.concrete for c in chars):
                return RString((''.join(chr(c.v) for c in chars),)) if chars else RString(())
            return RString((('chars', tuple(chars)),)) if chars else RString(())
        if ik == 'Vec':
            ex.builtins_alloc(st2, len(acc))
            return Vec(acc)
        raise ExecError('collect into ' + tgt)

    def mk_loop(acc):
        def loop(st2, o):
            if o.variant == 'None':
                st2.cells.pop(cell, None)
                v = build(st2, acc)
                if outer == 'Result':
                    return mk_ok(v)
                if outer == 'Option':
                    return mk_some(v)
                return v
            x = o.f[0]
            if outer == 'Result':
                if not isinstance(x, Enum) or x.variant is None:
                    raise ExecError('collect::<Result<..>> over %r' % (x,))
                if x.variant == 'Err':
                    st2.cells.pop(cell, None)
                    return x
                x = x.f[0]
            elif outer == 'Option':
                if not isinstance(x, Enum):
                    raise ExecError('collect::<Option<..>> over %r' % (x,))
                if x.variant is None:
                    return Choices([(c_, (lambda s3, ov=ov: loop(s3, mk_some(ov)))) for c_, ov in split_option(x)])
                if x.variant == 'None':
                    st2.cells.pop(cell, None)
                    return NONE
                x = x.f[0]
            return iter_next(ex, st2, itref, mk_loop(acc + (x,)))
        return loop
    return iter_next(ex, st, itref, mk_loop(()))


# ------------------------------------------------------------------------------------------ strings
@B.path('String::new')
def string_new(ex, st, info, args):
    return RString(())


@B.trait('ToString', 'to_string', lambda info: type_key(info['selfty']) in ('str', 'String'))
def str_to_string(ex, st, info, args):
    v = deref_all(ex, st, args[0])
    if isinstance(v, StrLit):
        ex.builtins_alloc(st, len(v.s))
        return RString((v.s,)) if v.s else RString(())
    return v


@B.trait('From', 'from', lambda info: type_key(info['selfty']) == 'Cow')
def cow_from(ex, st, info, args):
    return Opaque('string', 'cow')


@B.trait('From', 'from', lambda info: type_key(info['selfty']) == 'String')
def string_from(ex, st, info, args):
    v = deref_all(ex, st, args[0])
    if isinstance(v, StrLit):
        return RString((v.s,)) if v.s else RString(())
    return v


@B.path('String::as_str', 'String::as_mut_str')
def string_as_str(ex, st, info, args):
    return args[0]


@B.path('String::len', 'str::len')
def string_len(ex, st, info, args):
    v = deref_all(ex, st, args[0])
    if isinstance(v, StrLit):
        return Int('usize', len(v.s.encode()))
    cs = string_chars(v)
    if cs is None:
        raise ExecError('len of formatted string')
    return Int('usize', len(cs))


@B.path('u32::from_str_radix')
def from_str_radix(ex, st, info, args):
    raise ExecError('from_str_radix is not modelled (ICAO::from_str is checked with Kani)')


# ------------------------------------------------------------------------------------------ more Option/Result
@B.path('Result::unwrap_or', 'Option::unwrap_or')
def unwrap_or(ex, st, info, args):
    v, d = args
    return v.f[0] if v.variant in ('Ok', 'Some') else d


@B.path('Result::unwrap_or_default', 'Option::unwrap_or_default')
def unwrap_or_default(ex, st, info, args):
    v = args[0]
    if v.variant in ('Ok', 'Some'):
        return v.f[0]
    tys = self_generic_args_of_path(info)
    t = tys[0].strip() if tys else ''
    if t in INT_TYPES:
        return Int(t, 0)
    if t == 'bool':
        return False
    if t in FLOAT_TYPES:
        return mk_flt(t, 0.0)
    raise ExecError('unwrap_or_default for ' + t)


def self_generic_args_of_path(info):
    gs = info.get('allgenerics') or []
    return generic_args(gs[0]) if gs else []


@B.path('Result::unwrap_or_else', 'Option::unwrap_or_else')
def unwrap_or_else(ex, st, info, args):
    v, f = args
    if v.variant in ('Ok', 'Some'):
        return v.f[0]
    if v.variant == 'Err':
        return call_fn(f, [v.f[0]], lambda st2, r: r)
    return call_fn(f, [], lambda st2, r: r)


@B.path('Option::ok_or')
def option_ok_or(ex, st, info, args):
    v, e = args
    return mk_ok(v.f[0]) if v.variant == 'Some' else mk_err(e)


@B.path('Option::map_or')
def option_map_or(ex, st, info, args):
    v, d, f = args
    if v.variant == 'None':
        return d
    return call_fn(f, [v.f[0]], lambda st2, r: r)


@B.path('Option::or')
def option_or(ex, st, info, args):
    v, o = args
    return v if v.variant == 'Some' else o


@B.path('Option::filter')
def option_filter(ex, st, info, args):
    v, f = args
    if v.variant == 'None':
        return v
    cell_v = v

    def after(st2, r):
        if isinstance(r, bool):
            return cell_v if r else NONE
        return Choices([(r, lambda s3: cell_v), (z3.Not(r), lambda s3: NONE)])
    return call_fn(f, [Ref(('V', v.f[0]))], after)


@B.path('Option::is_some_and')
def option_is_some_and(ex, st, info, args):
    v, f = args
    if v.variant == 'None':
        return False
    return call_fn(f, [v.f[0]], lambda st2, r: r)


@B.path('Result::is_err')
def result_is_err(ex, st, info, args):
    return deref_all(ex, st, args[0]).variant == 'Err'


@B.path('Result::and_then')
def result_and_then(ex, st, info, args):
    v, f = args
    if v.variant == 'Err':
        return v
    return call_fn(f, [v.f[0]], lambda st2, r: r)


@B.path('Option::copied', 'Option::cloned')
def option_copied(ex, st, info, args):
    v = args[0]
    if v.variant == 'None':
        return v
    return mk_some(deref_all(ex, st, v.f[0]))


@B.path('Option::take')
def option_take(ex, st, info, args):
    r = args[0]
    v = ex.read_ref(st, r)
    ex.write_ref(st, r, NONE)
    return v


# ------------------------------------------------------------------------------------------ integer methods
def _int_method(name):
    def deco(fn):
        for t in INT_TYPES:
            B.paths['%s::%s' % (t, name)] = fn
        B.paths['num::%s' % name] = fn
        return fn
    return deco


def _checked(op):
    def f(ex, st, info, args):
        a, b = args
        r = int_binop(op + 'WithOverflow', a, b)
        val, ov = r.f
        if isinstance(ov, bool):
            return NONE if ov else mk_some(val)
        return Choices([(z3.Not(ov), lambda s2: mk_some(val)), (ov, lambda s2: NONE)])
    return f


_int_method('checked_add')(_checked('Add'))
_int_method('checked_sub')(_checked('Sub'))
_int_method('checked_mul')(_checked('Mul'))


def _wrapping(op):
    def f(ex, st, info, args):
        return int_binop(op, args[0], args[1])
    return f


_int_method('wrapping_add')(_wrapping('Add'))
_int_method('wrapping_sub')(_wrapping('Sub'))
_int_method('wrapping_mul')(_wrapping('Mul'))


def _saturating(op):
    def f(ex, st, info, args):
        a, b = args
        w, s = INT_TYPES[a.ty]
        lo, hi = (-(1 << (w - 1)), (1 << (w - 1)) - 1) if s else (0, (1 << w) - 1)
        r = int_binop(op + 'WithOverflow', a, b)
        val, ov = r.f
        if isinstance(ov, bool):
            if not ov:
                return val
            if not s:
                return Int(a.ty, hi if op != 'Sub' else lo)
            raise ExecError('signed saturating op')
        if s:
            raise ExecError('signed saturating op')
        sat = Int(a.ty, hi if op != 'Sub' else lo)
        return ite_value(ov, sat, val)
    return f


_int_method('saturating_add')(_saturating('Add'))
_int_method('saturating_sub')(_saturating('Sub'))
_int_method('saturating_mul')(_saturating('Mul'))


@_int_method('checked_div')
def checked_div(ex, st, info, args):
    a, b = args
    if b.concrete:
        return NONE if b.v == 0 else mk_some(int_binop('Div', a, b))
    z = to_bv(b) == 0
    return Choices([(z, lambda s2: NONE), (z3.Not(z), lambda s2: mk_some(int_binop('Div', a, b)))])


@_int_method('abs')
def int_abs(ex, st, info, args):
    a = args[0]
    if a.concrete:
        return mk_int(a.ty, abs(a.v))
    x = a.v
    return mk_int(a.ty, z3.If(x < 0, -x, x))


@_int_method('signum')
def int_signum(ex, st, info, args):
    a = args[0]
    if a.concrete:
        return Int(a.ty, (a.v > 0) - (a.v < 0))
    w, _ = INT_TYPES[a.ty]
    x = a.v
    return mk_int(a.ty, z3.If(x > 0, z3.BitVecVal(1, w), z3.If(x < 0, z3.BitVecVal(-1, w), z3.BitVecVal(0, w))))


@_int_method('pow')
def int_pow(ex, st, info, args):
    a, e = args
    n = concrete_usize(e, 'exponent')
    r = Int(a.ty, 1)
    for _ in range(n):
        t = int_binop('MulWithOverflow', r, a)
        if t.f[1] is True:
            return Panic('attempt to multiply with overflow')
        if t.f[1] is not False:
            raise ExecError('symbolic pow overflow')
        r = t.f[0]
    return r


@_int_method('min')
def int_min(ex, st, info, args):
    return cmp_min(ex, st, info, args)


@_int_method('max')
def int_max(ex, st, info, args):
    return cmp_max(ex, st, info, args)


@_int_method('from_be_bytes')
def from_be_bytes(ex, st, info, args):
    from .deku_bi import bytes_to_int
    ty = info['path'].split('::')[-2]
    return bytes_to_int(list(args[0].e), ty, False)


@_int_method('from_le_bytes')
def from_le_bytes(ex, st, info, args):
    from .deku_bi import bytes_to_int
    ty = info['path'].split('::')[-2]
    return bytes_to_int(list(args[0].e), ty, True)


@_int_method('to_le_bytes')
def to_le_bytes(ex, st, info, args):
    r = to_be_bytes(ex, st, info, args)
    return Arr(tuple(reversed(r.e)))


@_int_method('to_be_bytes')
def to_be_bytes2(ex, st, info, args):
    return to_be_bytes(ex, st, info, args)


@_int_method('count_ones')
def count_ones(ex, st, info, args):
    a = args[0]
    w, _ = INT_TYPES[a.ty]
    if a.concrete:
        return Int('u32', bin(a.v & ((1 << w) - 1)).count('1'))
    x = a.v
    acc = z3.BitVecVal(0, 32)
    for i in range(w):
        acc = acc + z3.ZeroExt(31, z3.Extract(i, i, x))
    return mk_int('u32', acc)


@_int_method('rem_euclid')
def rem_euclid(ex, st, info, args):
    a, b = args
    if a.concrete and b.concrete:
        if b.v == 0:
            return Panic('attempt to calculate the remainder with a divisor of zero')
        return mk_int(a.ty, a.v % abs(b.v))
    w, s = INT_TYPES[a.ty]
    if not s:
        return int_binop('Rem', a, b)
    x, y = to_bv(a), to_bv(b)
    r = z3.SRem(x, y)
    return mk_int(a.ty, z3.If(r < 0, z3.If(y < 0, r - y, r + y), r))


@_int_method('is_power_of_two')
def is_power_of_two(ex, st, info, args):
    a = args[0]
    if a.concrete:
        return a.v > 0 and (a.v & (a.v - 1)) == 0
    x = a.v
    return mk_bool(z3.And(x != 0, (x & (x - 1)) == 0))


# ------------------------------------------------------------------------------------------ more Vec / slice methods
@B.path('Vec::resize')
def vec_resize(ex, st, info, args):
    r, n, x = args
    n = concrete_usize(n, 'Vec::resize length')
    v = ex.read_ref(st, r)
    if n > len(v.e):
        ex.builtins_alloc(st, n - len(v.e))
        ex.write_ref(st, r, Vec(v.e + (x,) * (n - len(v.e))))
    else:
        ex.write_ref(st, r, Vec(v.e[:n]))
    return UNIT


@B.path('Vec::truncate')
def vec_truncate(ex, st, info, args):
    r, n = args
    n = concrete_usize(n)
    v = ex.read_ref(st, r)
    ex.write_ref(st, r, Vec(v.e[:n]))
    return UNIT


@B.path('Vec::reserve', 'Vec::reserve_exact', 'Vec::shrink_to_fit')
def vec_reserve(ex, st, info, args):
    return UNIT


@B.path('Vec::capacity')
def vec_capacity(ex, st, info, args):
    return Int('usize', len(deref_all(ex, st, args[0]).e))


@B.path('Vec::pop')
def vec_pop(ex, st, info, args):
    r = args[0]
    v = ex.read_ref(st, r)
    if not v.e:
        return NONE
    ex.write_ref(st, r, Vec(v.e[:-1]))
    return mk_some(v.e[-1])


@B.path('Vec::insert')
def vec_insert(ex, st, info, args):
    r, i, x = args
    i = concrete_usize(i)
    v = ex.read_ref(st, r)
    if i > len(v.e):
        return Panic('insertion index (is %d) should be <= len (is %d)' % (i, len(v.e)))
    ex.builtins_alloc(st, 1)
    ex.write_ref(st, r, Vec(v.e[:i] + (x,) + v.e[i:]))
    return UNIT


@B.path('Vec::remove')
def vec_remove(ex, st, info, args):
    r, i = args
    i = concrete_usize(i)
    v = ex.read_ref(st, r)
    if i >= len(v.e):
        return Panic('removal index (is %d) should be < len (is %d)' % (i, len(v.e)))
    ex.write_ref(st, r, Vec(v.e[:i] + v.e[i + 1:]))
    return v.e[i]


@B.path('Vec::extend', 'Vec::extend_from_within')
def vec_extend(ex, st, info, args):
    raise ExecError('Vec::extend over a generic iterator is not modelled')


@B.path('Vec::as_slice', 'Vec::as_mut_slice', 'Vec::as_ref', 'Vec::as_mut')
def vec_as_slice(ex, st, info, args):
    return args[0]


@B.path('Vec::split_off')
def vec_split_off(ex, st, info, args):
    r, i = args
    i = concrete_usize(i)
    v = ex.read_ref(st, r)
    if i > len(v.e):
        return Panic('`at` split index (is %d) should be <= len (is %d)' % (i, len(v.e)))
    ex.write_ref(st, r, Vec(v.e[:i]))
    return Vec(v.e[i:])


def _slice_elem_ref(r, i):
    return Ref(r.base, r.projs + (('idx', Int('usize', i)),), r.mut)


@B.path('slice::first', 'slice::first_mut', 'Vec::first')
def slice_first(ex, st, info, args):
    r = args[0]
    v = ex.read_ref(st, r)
    return mk_some(_slice_elem_ref(r, 0)) if ex.elems_of(v) else NONE


@B.path('slice::last', 'slice::last_mut', 'Vec::last')
def slice_last(ex, st, info, args):
    r = args[0]
    v = ex.read_ref(st, r)
    n = len(ex.elems_of(v))
    return mk_some(_slice_elem_ref(r, n - 1)) if n else NONE


@B.path('slice::get', 'slice::get_mut', 'Vec::get')
def slice_get(ex, st, info, args):
    r, i = args
    v = ex.read_ref(st, r)
    n = len(ex.elems_of(v))
    if isinstance(i, Int) and i.concrete:
        return mk_some(_slice_elem_ref(r, i.v)) if 0 <= i.v < n else NONE
    if isinstance(i, Int):
        inb = z3.ULT(to_bv(i), z3.BitVecVal(n, to_bv(i).size()))
        sel = ex.select_symbolic
        return Choices([(inb, lambda s2: mk_some(Ref(('V', sel(s2, ex.elems_of(v), i))))), (z3.Not(inb), lambda s2: NONE)])
    raise ExecError('slice::get with %r' % (i,))


@B.path('slice::is_empty')
def slice_is_empty(ex, st, info, args):
    return len(ex.elems_of(deref_all(ex, st, args[0]))) == 0


@B.path('slice::to_vec', 'slice::to_owned')
def slice_to_vec(ex, st, info, args):
    v = deref_all(ex, st, args[0])
    ex.builtins_alloc(st, len(ex.elems_of(v)))
    return Vec(ex.elems_of(v))


@B.path('slice::split_at', 'slice::split_at_mut')
def slice_split_at(ex, st, info, args):
    r, i = args
    i = concrete_usize(i)
    v = ex.read_ref(st, r)
    n = len(ex.elems_of(v))
    if i > n:
        return Panic('mid > len')
    return Tup((Ref(r.base, r.projs + (('range', 0, i),), r.mut), Ref(r.base, r.projs + (('range', i, n),), r.mut)))


@B.path('slice::copy_within')
def slice_copy_within(ex, st, info, args):
    r, rng, dest = args
    v = ex.read_ref(st, r)
    el = list(ex.elems_of(v))
    a, b = concrete_usize(rng.f[0]), concrete_usize(rng.f[1])
    d = concrete_usize(dest)
    if b > len(el) or a > b or d + (b - a) > len(el):
        return Panic('copy_within out of range')
    el[d:d + (b - a)] = el[a:b]
    ex.write_ref(st, r, type(v)(el))
    return UNIT


@B.trait('ToOwned', 'to_owned')
def to_owned_any(ex, st, info, args):
    v = deref_all(ex, st, args[0])
    if isinstance(v, StrLit):
        return RString((v.s,)) if v.s else RString(())
    if isinstance(v, Arr):
        return Vec(v.e)
    return v
