"""Parser for rustc's `-Zunpretty=mir` text (pinned to the installed nightly, 1.97.0-nightly).

The parser is deliberately strict: anything it does not recognise raises MirParseError, which the
checks turn into exit status 2 ("encoder incomplete"), never into a verdict.

AST (plain tuples, for speed):
  place    = (local:int, projs:tuple)      proj = ('deref',) | ('field', idx, ty) | ('downcast', name)
                                                  | ('index', local) | ('cindex', off, minlen, from_end)
                                                  | ('subslice', a, b, from_end)
  operand  = ('copy', place) | ('move', place) | ('const', text)
  rvalue   = ('use', op) | ('ref', mut, place) | ('rawptr', mut, place) | ('bin', opname, a, b)
           | ('un', opname, a) | ('cast', op, ty, kind) | ('discr', place) | ('len', place)
           | ('array', [ops]) | ('repeat', op, n_text) | ('tuple', [ops])
           | ('adt', path, variant_fields)   where variant_fields = ('pos', [ops]) | ('named', [(n, op)]) | ('unit',)
           | ('closure', text, [ops]) | ('copyfor', place) | ('nullop', text)
  stmt     = ('assign', place, rvalue) | ('setdiscr', place, idx) | ('nop',)
  term     = ('goto', bb) | ('switch', op, [(val, bb)], otherwise_bb) | ('return',) | ('unreachable',)
           | ('drop', place, bb) | ('assert', op, expected_bool, msg, bb) | ('call', callee, [ops], dest_place|None, bb|None)
           | ('resume',)
"""
import re


class MirParseError(Exception):
    pass


class Fn:
    __slots__ = ('name', 'kind', 'args', 'ret', 'locals', 'blocks', 'cleanup', 'src', 'argnames',
                 'ipdom', 'ty', 'value_text', 'line')

    def __init__(self):
        self.ipdom = None


# ------------------------------------------------------------------------------------------ lexer
def split_top(s, sep=','):
    """Split on `sep` at bracket depth 0, respecting string/char literals and `->` arrows."""
    out = []
    depth = 0
    i = 0
    n = len(s)
    start = 0
    while i < n:
        c = s[i]
        if c == '"':
            i = skip_string(s, i)
            continue
        if c == "'" and is_char_lit(s, i):
            i = skip_char(s, i)
            continue
        if c in '([{<':
            if c == '<' and not angle_opens(s, i):
                i += 1
                continue
            depth += 1
        elif c in ')]}':
            depth -= 1
        elif c == '>':
            if i > 0 and s[i - 1] == '-':
                pass
            elif i > 0 and s[i - 1] == '=' :
                pass
            else:
                depth -= 1
        elif c == sep and depth == 0:
            out.append(s[start:i].strip())
            start = i + 1
        i += 1
    last = s[start:].strip()
    if last:
        out.append(last)
    return out


def angle_opens(s, i):
    """Is the '<' at s[i] a generic bracket (as opposed to a comparison/shift)?  In MIR dumps the only
    non-bracket '<' would be inside string literals, which the callers skip."""
    return True


def skip_string(s, i):
    """s[i] == '"'; return index just past the closing quote."""
    i += 1
    n = len(s)
    while i < n:
        c = s[i]
        if c == '\\':
            i += 2
            continue
        if c == '"':
            return i + 1
        i += 1
    raise MirParseError('unterminated string in: ' + s[:120])


def is_char_lit(s, i):
    # 'a' or '\n' or '\u{..}' ; lifetimes look like '_ or 'a followed by non-quote
    if i + 2 < len(s) and s[i + 1] != '\\' and s[i + 2] == "'":
        return True
    if i + 1 < len(s) and s[i + 1] == '\\':
        return True
    return False


def skip_char(s, i):
    i += 1
    while s[i] != "'":
        if s[i] == '\\':
            i += 1
        i += 1
    return i + 1


def find_matching(s, i):
    """s[i] is an opening bracket; return the index of its matching close."""
    opens = '([{<'
    closes = ')]}>'
    depth = 0
    n = len(s)
    while i < n:
        c = s[i]
        if c == '"':
            i = skip_string(s, i)
            continue
        if c == "'" and is_char_lit(s, i):
            i = skip_char(s, i)
            continue
        if c in opens:
            depth += 1
        elif c in closes:
            if c == '>' and i > 0 and s[i - 1] in '-=':
                i += 1
                continue
            depth -= 1
            if depth == 0:
                return i
        i += 1
    raise MirParseError('unbalanced: ' + s[:160])


# ------------------------------------------------------------------------------------- place/operand
_place_cache = {}


def parse_place(s):
    s = s.strip()
    r = _place_cache.get(s)
    if r is None:
        r, rest = _parse_place(s)
        if rest.strip():
            raise MirParseError('trailing text after place: %r in %r' % (rest, s))
        _place_cache[s] = r
    return r


def _parse_place(s):
    """Returns ((local, projs), rest)."""
    s = s.lstrip()
    if s.startswith('(*'):
        # (*PLACE)
        end = find_matching(s, 0)
        inner = s[2:end]
        (loc, projs), r = _parse_place(inner)
        if r.strip():
            raise MirParseError('bad deref place ' + s)
        base = (loc, projs + (('deref',),))
        rest = s[end + 1:]
    elif s.startswith('('):
        end = find_matching(s, 0)
        inner = s[1:end]
        rest = s[end + 1:]
        # (PLACE as Variant)   or   (PLACE.N: TYPE)
        m = re.match(r'^(.*) as ([A-Za-z_][A-Za-z_0-9]*)$', inner)
        if m and ':' not in strip_brackets_tail(inner):
            (loc, projs), r = _parse_place(m.group(1))
            if r.strip():
                raise MirParseError('bad downcast place ' + s)
            base = (loc, projs + (('downcast', m.group(2)),))
        else:
            # field:  BASE.N: TYPE   (BASE may itself be parenthesised)
            (loc, projs), r = _parse_place(inner)
            m2 = re.match(r'^\.(\d+): (.*)$', r, re.S)
            if not m2:
                raise MirParseError('bad field place %r (rest %r)' % (s, r))
            base = (loc, projs + (('field', int(m2.group(1)), m2.group(2).strip()),))
    else:
        m = re.match(r'^_(\d+)', s)
        if not m:
            raise MirParseError('bad place: %r' % s)
        base = (int(m.group(1)), ())
        rest = s[m.end():]
    # trailing index projections
    while rest.startswith('['):
        end = find_matching(rest, 0)
        idx = rest[1:end].strip()
        rest = rest[end + 1:]
        m = re.match(r'^_(\d+)$', idx)
        if m:
            base = (base[0], base[1] + (('index', int(m.group(1))),))
            continue
        m = re.match(r'^(-?)(\d+) of (\d+)$', idx)
        if m:
            base = (base[0], base[1] + (('cindex', int(m.group(2)), int(m.group(3)), m.group(1) == '-'),))
            continue
        m = re.match(r'^(\d+):(-?)(\d*)$', idx)
        if m:
            base = (base[0], base[1] + (('subslice', int(m.group(1)), int(m.group(3) or 0), m.group(2) == '-'),))
            continue
        raise MirParseError('bad index projection %r' % idx)
    return base, rest


def strip_brackets_tail(s):
    """Return the part of s after its last top-level closing bracket (used to tell `(x as V)` from `(x.0: T as ..)`)."""
    depth = 0
    last = 0
    i = 0
    while i < len(s):
        c = s[i]
        if c == '"':
            i = skip_string(s, i)
            continue
        if c in '([{':
            depth += 1
        elif c in ')]}':
            depth -= 1
            if depth == 0:
                last = i + 1
        i += 1
    return s[last:]


def parse_operand(s):
    s = s.strip()
    if s.startswith('copy '):
        return ('copy', parse_place(s[5:]))
    if s.startswith('move '):
        return ('move', parse_place(s[5:]))
    if s.startswith('const '):
        return ('const', s[6:].strip())
    if s.startswith('no_retag '):
        return parse_operand(s[9:])
    if re.match(r'^[<A-Za-z_]', s) and not re.match(r'^(copy|move|const)\b', s):
        # a function item used as a value (e.g. `map_or(0, <u64 as From<u16>>::from)`)
        return ('const', s)
    raise MirParseError('bad operand: %r' % s)


BINOPS = {'Add', 'Sub', 'Mul', 'Div', 'Rem', 'BitXor', 'BitAnd', 'BitOr', 'Shl', 'Shr', 'Eq', 'Lt', 'Le', 'Ne',
          'Ge', 'Gt', 'Cmp', 'Offset', 'AddWithOverflow', 'SubWithOverflow', 'MulWithOverflow',
          'AddUnchecked', 'SubUnchecked', 'MulUnchecked', 'ShlUnchecked', 'ShrUnchecked'}
UNOPS = {'Not', 'Neg', 'PtrMetadata'}


def parse_rvalue(s):
    s = s.strip()
    if s.startswith('&raw const '):
        return ('rawptr', False, parse_place(s[11:]))
    if s.startswith('&raw mut '):
        return ('rawptr', True, parse_place(s[9:]))
    if s.startswith('&mut '):
        return ('ref', True, parse_place(s[5:]))
    if s.startswith('&fake shallow '):
        return ('ref', False, parse_place(s[14:]))
    if s.startswith('&') and not s.startswith('&&'):
        return ('ref', False, parse_place(s[1:]))
    if s.startswith('discriminant('):
        return ('discr', parse_place(s[13:-1]))
    if s.startswith('Len('):
        return ('len', parse_place(s[4:-1]))
    if s.startswith('CopyForDeref('):
        return ('use', ('copy', parse_place(s[13:-1])))
    if s.startswith('['):
        end = find_matching(s, 0)
        inner = s[1:end]
        if s[end + 1:].strip():
            raise MirParseError('trailing after array rvalue: ' + s[:100])
        parts = split_top(inner, ';')
        if len(parts) == 2:
            return ('repeat', parse_operand(parts[0]), parts[1])
        return ('array', [parse_operand(p) for p in split_top(inner)])
    if s.startswith('('):
        end = find_matching(s, 0)
        if end == len(s) - 1:
            inner = s[1:end]
            # tuple aggregate -- but could also be a place like (_1.0: T) used bare?  Bare places never
            # appear as rvalues (they are always prefixed with copy/move).
            return ('tuple', [parse_operand(p) for p in split_top(inner)])
    m = re.match(r'^([A-Za-z]+)\(', s)
    if m and m.group(1) in BINOPS:
        inner = s[m.end():find_matching(s, m.end() - 1)]
        a, b = split_top(inner)
        return ('bin', m.group(1), parse_operand(a), parse_operand(b))
    if m and m.group(1) in UNOPS:
        inner = s[m.end():find_matching(s, m.end() - 1)]
        return ('un', m.group(1), parse_operand(inner))
    if s.startswith(('copy ', 'move ', 'const ', 'no_retag ')):
        # possibly a cast:  OPERAND as TYPE (Kind)
        m = re.match(r'^(.*) as (.*) \(([A-Za-z]+(?:\(.*\))?)\)$', s, re.S)
        if m and not s.startswith('const "') and not s.startswith('const b"'):
            try:
                op = parse_operand(m.group(1))
                return ('cast', op, m.group(2).strip(), m.group(3))
            except MirParseError:
                pass
        return ('use', parse_operand(s))
    if s.startswith('{closure@') or s.startswith('{coroutine@'):
        end = find_matching(s, 0)
        rest = s[end + 1:].strip()
        ops = []
        if rest:
            # captures print as `{closure@..} { x: move _1, .. }`
            if not (rest.startswith('{') and find_matching(rest, 0) == len(rest) - 1):
                raise MirParseError('closure with unknown capture syntax: ' + s[:200])
            for p in split_top(rest[1:-1]):
                k, v = p.split(':', 1)
                ops.append(parse_operand(v))
        return ('closure', s[:end + 1], ops)
    # ADT aggregate:  Path::<..>::Variant(ops) | Path { f: op, .. } | Path
    # find top-level '(' or ' {' that starts the field list
    i = 0
    n = len(s)
    depth = 0
    while i < n:
        c = s[i]
        if c == '<':
            i = find_matching(s, i) + 1
            continue
        if c == '{' and s.startswith('{closure@', i):
            i = find_matching(s, i) + 1
            continue
        if c == '(' :
            end = find_matching(s, i)
            if s[end + 1:].strip():
                raise MirParseError('trailing after adt aggregate: ' + s[:200])
            path = s[:i].strip()
            ops = [parse_operand(p) for p in split_top(s[i + 1:end])]
            return ('adt', path, ('pos', ops))
        if c == '{':
            end = find_matching(s, i)
            path = s[:i].strip()
            fields = []
            for p in split_top(s[i + 1:end]):
                k, v = p.split(':', 1)
                fields.append((k.strip(), parse_operand(v)))
            if s[end + 1:].strip():
                # closure with captures: `{closure@..} { cap: op }` handled above; anything else is unknown
                raise MirParseError('trailing after struct aggregate: ' + s[:200])
            return ('adt', path, ('named', fields))
        i += 1
    if re.match(r'^[A-Za-z_<][^ ]*$', s) or re.match(r'^[A-Za-z_<].*$', s):
        return ('adt', s, ('unit',))
    raise MirParseError('bad rvalue: %r' % s[:200])


# --------------------------------------------------------------------------------------- statements
def parse_statement(s):
    s = s.strip()
    if s.endswith(';'):
        s = s[:-1]
    if s.startswith(('StorageLive', 'StorageDead', 'Retag', 'PlaceMention', 'FakeRead', 'AscribeUserType',
                     'Coverage', 'nop', 'ConstEvalCounter', 'BackwardIncompatibleDropHint')):
        return ('nop',)
    if s.startswith('discriminant('):
        end = find_matching(s, 12)
        pl = parse_place(s[13:end])
        m = re.match(r'^\s*=\s*(\d+)$', s[end + 1:])
        if not m:
            raise MirParseError('bad SetDiscriminant: ' + s)
        return ('setdiscr', pl, int(m.group(1)))
    if s.startswith('deinit('):
        return ('nop',)
    if s.startswith('assume('):
        return ('nop',)
    # assignment: PLACE = RVALUE
    pl, rest = _parse_place(s)
    rest = rest.lstrip()
    if not rest.startswith('= '):
        raise MirParseError('bad statement: %r' % s[:200])
    return ('assign', pl, parse_rvalue(rest[2:]))


def _targets(s):
    """parse `[return: bb1, unwind continue]` or `unwind continue`"""
    s = s.strip()
    ret = None
    if s.startswith('['):
        for part in split_top(s[1:find_matching(s, 0)]):
            m = re.match(r'^(return|success): bb(\d+)$', part)
            if m:
                ret = int(m.group(2))
    return ret


def parse_terminator(s):
    s = s.strip()
    if s.endswith(';'):
        s = s[:-1]
    if s.startswith('goto -> bb'):
        return ('goto', int(s[10:]))
    if s == 'return':
        return ('return',)
    if s == 'unreachable':
        return ('unreachable',)
    if s.startswith('resume') or s.startswith('terminate') or s.startswith('abort'):
        return ('resume',)
    if s.startswith('switchInt('):
        end = find_matching(s, 9)
        op = parse_operand(s[10:end])
        rest = s[end + 1:].strip()
        if not rest.startswith('-> ['):
            raise MirParseError('bad switchInt: ' + s)
        arms = []
        otherwise = None
        for part in split_top(rest[4:find_matching(rest, 3)]):
            k, v = part.split(':')
            bb = int(v.strip()[2:])
            if k.strip() == 'otherwise':
                otherwise = bb
            else:
                arms.append((int(k.strip()), bb))
        return ('switch', op, arms, otherwise)
    if s.startswith('drop('):
        end = find_matching(s, 4)
        pl = parse_place(s[5:end])
        bb = _targets(s[end + 1:].strip()[3:])
        return ('drop', pl, bb)
    if s.startswith('assert('):
        end = find_matching(s, 6)
        parts = split_top(s[7:end])
        cond = parts[0]
        expected = True
        if cond.startswith('!'):
            expected = False
            cond = cond[1:]
        op = parse_operand(cond)
        msg = parts[1] if len(parts) > 1 else ''
        rest = s[end + 1:].strip()
        bb = _targets(rest[3:]) if rest.startswith('->') else None
        return ('assert', op, expected, msg, bb)
    if s.startswith('falseEdge') or s.startswith('falseUnwind') or s.startswith('yield') or s.startswith('tailcall'):
        raise MirParseError('unsupported terminator: ' + s[:80])
    # call:  [PLACE = ] CALLEE(ARGS) -> TARGETS
    dest = None
    body = s
    # try to split off "PLACE = "
    try:
        pl, rest = _parse_place(s)
        r2 = rest.lstrip()
        if r2.startswith('= '):
            dest = pl
            body = r2[2:]
    except MirParseError:
        pass
    # callee: scan to the first '(' at depth 0 outside <>/{}
    i = 0
    n = len(body)
    while i < n:
        c = body[i]
        if c == '<' or c == '{' or c == '[':
            i = find_matching(body, i) + 1
            continue
        if c == '(':
            break
        i += 1
    if i >= n:
        raise MirParseError('bad terminator: %r' % s[:200])
    callee = body[:i].strip()
    end = find_matching(body, i)
    args = [parse_operand(p) for p in split_top(body[i + 1:end])]
    rest = body[end + 1:].strip()
    bb = None
    if rest.startswith('->'):
        bb = _targets(rest[2:])
    elif rest:
        raise MirParseError('bad call tail: %r' % rest)
    if callee.startswith(('copy ', 'move ')):
        callee = ('op', parse_operand(callee))
    return ('call', callee, args, dest, bb)


# ------------------------------------------------------------------------------------------- file
_hdr_fn = re.compile(r'^fn (.*)$')


def parse_mir(text):
    """Returns dict name -> Fn (functions, consts with bodies, statics, promoteds) and dict of simple consts."""
    lines = text.split('\n')
    n = len(lines)
    i = 0
    items = {}
    order = []
    while i < n:
        line = lines[i]
        if not line or line.startswith('//'):
            i += 1
            continue
        if line.startswith('alloc'):
            # skip allocation dumps
            i += 1
            while i < n and lines[i] and not lines[i].startswith(('fn ', 'const ', 'static ', 'alloc')):
                i += 1
            continue
        if line.startswith(('fn ', 'const ', 'static ', 'static mut ')):
            # header may span multiple lines only through string escapes; MIR headers are single-line.
            kind = line.split(' ', 1)[0]
            if line.rstrip().endswith(';'):
                # simple const:  const NAME: TY = const VALUE;
                body = line[len(kind) + 1:].rstrip()[:-1]
                name, ty, val = _split_const_header(body)
                f = Fn()
                f.kind = 'constval'
                f.name = name
                f.ty = ty
                f.value_text = val
                f.line = i + 1
                _add(items, order, f)
                i += 1
                continue
            if not line.rstrip().endswith('{'):
                raise MirParseError('unexpected header line %d: %r' % (i + 1, line[:160]))
            # collect until closing '}' at column 0
            j = i + 1
            while j < n and lines[j] != '}':
                j += 1
            f = _parse_item(kind, line, lines[i + 1:j], i + 1)
            _add(items, order, f)
            i = j + 1
            continue
        m_anon = re.match(r'^([A-Za-z_][\w:<>{}#, ]*::\{constant#\d+\})\s*:\s*.*=\s*\{\s*$', line)
        if m_anon:
            # anonymous constant item (e.g. the accessor of a `thread_local!`): NAME::{constant#0}: TYPE = { body }
            j = i + 1
            while j < n and lines[j] != '}':
                j += 1
            try:
                f = _parse_item('const', 'const ' + line, lines[i + 1:j], i + 1)
                _add(items, order, f)
            except MirParseError:
                pass          # kept out of the program: a use of it is reported as an unknown constant / callee
            i = j + 1
            continue
        raise MirParseError('unexpected top-level line %d: %r' % (i + 1, line[:160]))
    return items, order


def _add(items, order, f):
    # duplicate names happen (statics per closure, `fn Airplanes` ctor twice): keep first, suffix others
    name = f.name
    k = 1
    while name in items:
        k += 1
        name = '%s#%d' % (f.name, k)
    f.name = name
    items[name] = f
    order.append(name)


def _split_const_header(body):
    # NAME: TY = VALUE     (NAME may contain '::', '<impl at a:1:2: 3:4>' with colons)
    # find ' = ' at top level from the left after the type; find ': ' that separates name and type:
    depth = 0
    i = 0
    n = len(body)
    colon = None
    eq = None
    while i < n:
        c = body[i]
        if c == '"':
            i = skip_string(body, i)
            continue
        if c in '<([{':
            i = find_matching(body, i) + 1
            continue
        if c == ':' and colon is None and body[i:i + 2] == ': ' and body[i - 1] != ':':
            colon = i
        if c == '=' and body[i - 1] == ' ' and body[i + 1:i + 2] == ' ' and colon is not None:
            eq = i
            break
        i += 1
    if colon is None or eq is None:
        raise MirParseError('bad const header: %r' % body[:200])
    return body[:colon].strip(), body[colon + 1:eq].strip(), body[eq + 1:].strip()


def _parse_item(kind, header, body_lines, lineno):
    f = Fn()
    f.line = lineno
    f.locals = {}
    f.blocks = {}
    f.cleanup = set()
    f.argnames = {}
    header = header.rstrip()
    assert header.endswith('{')
    header = header[:-1].rstrip()
    if kind == 'fn':
        h = header[3:]
        # NAME(ARGS) -> RET ; NAME can contain '(' only inside <...> or {closure...}
        i = 0
        while i < len(h):
            c = h[i]
            if c == '<' or c == '{' or c == '[':
                i = find_matching(h, i) + 1
                continue
            if c == '(':
                break
            i += 1
        f.name = h[:i]
        end = find_matching(h, i)
        args = []
        for a in split_top(h[i + 1:end]):
            m = re.match(r'^_(\d+): (.*)$', a, re.S)
            if not m:
                raise MirParseError('bad arg %r in %r' % (a, header[:200]))
            args.append(int(m.group(1)))
            f.locals[int(m.group(1))] = m.group(2).strip()
        f.args = args
        rest = h[end + 1:].strip()
        f.ret = rest[2:].strip() if rest.startswith('->') else '()'
        f.kind = 'fn'
    else:
        h = header[len(kind) + 1:]
        if h.startswith('mut '):
            h = h[4:]
        assert h.endswith('=')
        name, ty, _ = _split_const_header(h + ' X')
        f.name = name
        f.ty = ty
        f.args = []
        f.ret = ty
        f.kind = kind
    # body
    cur = None
    stmts = None
    pending = None
    for ln in body_lines:
        s = ln.strip()
        if pending is not None:
            pending += '\n' + ln
            if _complete(pending):
                stmts.append(pending.strip())
                pending = None
            continue
        if not s:
            continue
        if cur is None:
            m = re.match(r'^let (mut )?_(\d+): (.*);$', s, re.S)
            if m:
                f.locals[int(m.group(2))] = m.group(3).strip()
                continue
            m = re.match(r'^debug (.*) => (.*);$', s)
            if m:
                mm = re.match(r'^_(\d+)$', m.group(2))
                if mm:
                    f.argnames[int(mm.group(1))] = m.group(1)
                continue
            if s.startswith('scope ') or s == '}':
                continue
        m = re.match(r'^bb(\d+)( \(cleanup\))?: \{$', s)
        if m:
            cur = int(m.group(1))
            stmts = []
            if m.group(2):
                f.cleanup.add(cur)
            continue
        if s == '}' and cur is not None and stmts is not None and ln.startswith('    }'):
            f.blocks[cur] = stmts
            stmts = None
            continue
        if stmts is not None:
            if _complete(ln):
                stmts.append(s)
            else:
                pending = ln
            continue
        if s.startswith('let ') and not s.endswith(';'):
            raise MirParseError('multi-line let at %d' % lineno)
        raise MirParseError('unexpected body line in %s: %r' % (f.name, ln[:160]))
    # lazily parsed statements: keep raw text, parse on first use
    f.src = f.blocks
    f.blocks = {}
    return f


def _complete(s):
    """A statement is complete when it ends with ';' outside of any string literal."""
    t = s.rstrip()
    if not t.endswith(';'):
        return False
    # check that we're not inside a string: count unescaped quotes
    i = 0
    n = len(t)
    instr = False
    while i < n:
        c = t[i]
        if instr:
            if c == '\\':
                i += 2
                continue
            if c == '"':
                instr = False
        else:
            if c == '"':
                instr = True
            elif c == "'" and is_char_lit(t, i):
                i = skip_char(t, i)
                continue
        i += 1
    return not instr


def get_block(f, bb):
    """Parse block bb of f on demand: returns (stmts, terminator)."""
    b = f.blocks.get(bb)
    if b is None:
        raw = f.src[bb]
        if not raw:
            raise MirParseError('empty block bb%d in %s' % (bb, f.name))
        try:
            stmts = [parse_statement(x) for x in raw[:-1]]
            term = parse_terminator(raw[-1])
        except MirParseError as e:
            raise MirParseError('%s [in %s bb%d]' % (e, f.name, bb))
        b = (stmts, term)
        f.blocks[bb] = b
    return b


def successors(term):
    k = term[0]
    if k == 'goto':
        return [term[1]]
    if k == 'switch':
        out = [bb for _, bb in term[2]]
        if term[3] is not None:
            out.append(term[3])
        return out
    if k == 'drop':
        return [term[2]] if term[2] is not None else []
    if k == 'assert':
        return [term[4]] if term[4] is not None else []
    if k == 'call':
        return [term[4]] if term[4] is not None else []
    return []


def compute_ipdom(f):
    """Immediate post-dominators over the non-cleanup CFG with a virtual exit (-1)."""
    if f.ipdom is not None:
        return f.ipdom
    nodes = [b for b in f.src if b not in f.cleanup]
    succ = {}
    for b in nodes:
        _, term = get_block(f, b)
        ss = [x for x in successors(term) if x not in f.cleanup]
        if not ss:
            ss = [-1]
        succ[b] = ss
    # iterative dataflow on post-dominator sets (graphs are small)
    allnodes = set(nodes) | {-1}
    pdom = {b: set(allnodes) for b in nodes}
    pdom[-1] = {-1}
    changed = True
    while changed:
        changed = False
        for b in nodes:
            new = None
            for s in succ[b]:
                new = set(pdom[s]) if new is None else (new & pdom[s])
            new = (new or set()) | {b}
            if new != pdom[b]:
                pdom[b] = new
                changed = True
    ipdom = {}
    for b in nodes:
        cands = pdom[b] - {b}
        # the immediate post-dominator is the candidate that is post-dominated by all other candidates
        best = None
        for c in cands:
            if all((d in pdom[c]) for d in cands):
                best = c
                break
        ipdom[b] = best if best is not None else -1
    f.ipdom = ipdom
    return ipdom
