"""BTreeMap (concrete structure, symbolic keys), Box/vec! lowering, SystemTime/Duration (clock = symbolic,
non-decreasing), tracing stubs (LevelFilter::current() == OFF: logging is outside every claim)."""
import z3

from .values import *   # noqa
from .execu import ExecError, PanicExc, Call, Choices, Panic, type_key, int_binop
from .builtins import (B, mk_ok, mk_err, mk_some, NONE, concrete_usize, deref_all, eq_values, call_fn, generic_args)

MAX_MAP = 8


# ------------------------------------------------------------------------------------------ BTreeMap
@B.path('BTreeMap::new')
def bmap_new(ex, st, info, args):
    return BMap(())


@B.path('BTreeMap::len')
def bmap_len(ex, st, info, args):
    return Int('usize', len(deref_all(ex, st, args[0]).ents))


@B.path('BTreeMap::is_empty')
def bmap_is_empty(ex, st, info, args):
    return len(deref_all(ex, st, args[0]).ents) == 0


def key_eq(ex, st, a, b, k):
    return eq_values(ex, st, a, b, k)


def find_key(ex, st, mref, key, found, missing):
    """Decide (forking where symbolic) whether key is in the map: found(st, idx) / missing(st)."""
    m = ex.read_ref(st, mref)
    ents = m.ents

    def step(st2, i):
        if i == len(ents):
            return missing(st2)

        def got(st3, r):
            if isinstance(r, bool):
                return found(st3, i) if r else step(st3, i + 1)
            return Choices([(r, lambda s4: found(s4, i)), (z3.Not(r), lambda s4: step(s4, i + 1))])
        return key_eq(ex, st2, ents[i][0], key, got)
    return step(st, 0)


@B.path('BTreeMap::entry')
def bmap_entry(ex, st, info, args):
    mref, key = args
    return find_key(ex, st, mref, key,
                    lambda s2, i: Enum('Entry', 'Occupied', (Struct('OccupiedEntry', (mref, Opaque('idx', i))),)),
                    lambda s2: Enum('Entry', 'Vacant', (Struct('VacantEntry', (mref, key)),)))


@B.path('Entry::or_default', 'btree_map::Entry::or_default')
def entry_or_default(ex, st, info, args):
    e = args[0]
    if e.variant == 'Occupied':
        mref, idx = e.f[0].f
        return Ref(mref.base, mref.projs + (('mapval', idx.p),), True)
    mref, key = e.f[0].f
    gens = info.get('allgenerics') or []
    vty = generic_args(gens[0])[-1] if gens else None
    if vty is None:
        raise ExecError('Entry::or_default without value type')

    def made(st2, v):
        m = ex.read_ref(st2, mref)
        if len(m.ents) >= MAX_MAP:
            raise ExecError('map grew beyond the modelled bound')
        ex.builtins_alloc(st2, 1)
        ex.write_ref(st2, mref, BMap(m.ents + ((key, v),)))
        return Ref(mref.base, mref.projs + (('mapval', len(m.ents)),), True)
    return Call('<%s as Default>::default' % vty.strip(), [], made)


@B.path('Entry::or_insert', 'btree_map::Entry::or_insert')
def entry_or_insert(ex, st, info, args):
    e, v = args
    if e.variant == 'Occupied':
        mref, idx = e.f[0].f
        return Ref(mref.base, mref.projs + (('mapval', idx.p),), True)
    mref, key = e.f[0].f
    m = ex.read_ref(st, mref)
    ex.builtins_alloc(st, 1)
    ex.write_ref(st, mref, BMap(m.ents + ((key, v),)))
    return Ref(mref.base, mref.projs + (('mapval', len(m.ents)),), True)


@B.path('BTreeMap::get', 'BTreeMap::get_mut')
def bmap_get(ex, st, info, args):
    mref, kref = args
    key = deref_all(ex, st, kref)
    return find_key(ex, st, mref, key,
                    lambda s2, i: mk_some(Ref(mref.base, mref.projs + (('mapval', i),), mref.mut)),
                    lambda s2: NONE)


@B.path('BTreeMap::contains_key')
def bmap_contains(ex, st, info, args):
    mref, kref = args
    key = deref_all(ex, st, kref)
    return find_key(ex, st, mref, key, lambda s2, i: True, lambda s2: False)


@B.path('BTreeMap::insert')
def bmap_insert(ex, st, info, args):
    mref, key, v = args

    def found(s2, i):
        m = ex.read_ref(s2, mref)
        old = m.ents[i][1]
        ents = list(m.ents)
        ents[i] = (ents[i][0], v)
        ex.write_ref(s2, mref, BMap(ents))
        return mk_some(old)

    def missing(s2):
        m = ex.read_ref(s2, mref)
        ex.builtins_alloc(s2, 1)
        ex.write_ref(s2, mref, BMap(m.ents + ((key, v),)))
        return NONE
    return find_key(ex, st, mref, key, found, missing)


@B.path('BTreeMap::remove')
def bmap_remove(ex, st, info, args):
    mref, kref = args
    key = deref_all(ex, st, kref)

    def found(s2, i):
        m = ex.read_ref(s2, mref)
        old = m.ents[i][1]
        ex.write_ref(s2, mref, BMap(m.ents[:i] + m.ents[i + 1:]))
        return mk_some(old)
    return find_key(ex, st, mref, key, found, lambda s2: NONE)


@B.path('BTreeMap::keys')
def bmap_keys(ex, st, info, args):
    return Struct('MapKeys', (args[0], Int('usize', 0)))


@B.path('BTreeMap::iter', 'BTreeMap::iter_mut')
def bmap_iter(ex, st, info, args):
    return Struct('MapIter', (args[0], Int('usize', 0)))


@B.path('BTreeMap::retain')
def bmap_retain(ex, st, info, args):
    mref, f = args
    m0 = ex.read_ref(st, mref)
    n = len(m0.ents)

    def step(st2, i, keep):
        if i == n:
            m = ex.read_ref(st2, mref)
            ex.write_ref(st2, mref, BMap([m.ents[j] for j in keep]))
            return UNIT
        m = ex.read_ref(st2, mref)
        kref = Ref(('V', m.ents[i][0]))
        vref = Ref(mref.base, mref.projs + (('mapval', i),), True)

        def got(st3, r):
            if isinstance(r, bool):
                return step(st3, i + 1, keep + ((i,) if r else ()))
            return Choices([(r, lambda s4: step(s4, i + 1, keep + (i,))),
                            (z3.Not(r), lambda s4: step(s4, i + 1, keep))])
        return call_fn(f, [kref, vref], got)
    return step(st, 0, ())


# ------------------------------------------------------------------------------------------ Box / vec![..]
@B.path('Box::new_uninit')
def box_new_uninit(ex, st, info, args):
    cell = st.new_cell(UNINIT)
    return Struct('Box', (Struct('Unique', (Ref(('C', cell), (), True),)),))


@B.path('boxed::box_assume_init_into_vec_unsafe', 'box_assume_init_into_vec_unsafe')
def box_into_vec(ex, st, info, args):
    b = args[0]
    r = b.f[0].f[0]
    v = ex.read_ref(st, r)
    # MaybeUninit { uninit: (), value: ManuallyDrop { value: MaybeDangling(T) } }
    for _ in range(4):
        if isinstance(v, Arr):
            break
        if isinstance(v, (Tup, Struct)):
            v = [x for x in v.f if x is not UNINIT][-1]
    if not isinstance(v, Arr):
        raise ExecError('box_assume_init_into_vec_unsafe: unexpected box content %r' % (v,))
    del st.cells[r.base[1]]
    ex.builtins_alloc(st, len(v.e))
    return Vec(v.e)


@B.path('Box::new')
def box_new(ex, st, info, args):
    return Box(args[0])


# ------------------------------------------------------------------------------------------ time
def _now(st):
    k = st.env.get('clock_n', 0)
    t = z3.BitVec('now!%d' % k, 128)
    prev = st.env.get('clock_last')
    mode = st.env.get('clock_mode', 'monotone')
    st.pc.append(z3.ULT(t, z3.BitVecVal(1 << 100, 128)))
    if prev is not None and mode == 'monotone':
        st.pc.append(z3.UGE(t, prev))
    st.env['clock_n'] = k + 1
    st.env['clock_last'] = t
    return t


@B.path('SystemTime::now')
def systemtime_now(ex, st, info, args):
    return Struct('SystemTime', (Int('u128', _now(st)),))


@B.path('SystemTime::elapsed')
def systemtime_elapsed(ex, st, info, args):
    t = deref_all(ex, st, args[0]).f[0]
    now = _now(st)
    tb = to_bv(t)
    ok = z3.UGE(now, tb)
    return Choices([(ok, lambda s2: mk_ok(Struct('Duration', (Int('u128', now - tb),)))),
                    (z3.Not(ok), lambda s2: mk_err(Struct('SystemTimeError', (Struct('Duration', (Int('u128', tb - now),)),))))])


@B.path('Duration::from_secs')
def duration_from_secs(ex, st, info, args):
    s = args[0]
    if s.concrete:
        return Struct('Duration', (Int('u128', s.v * 1000000000),))
    return Struct('Duration', (Int('u128', z3.ZeroExt(64, s.v) * z3.BitVecVal(1000000000, 128)),))


def _dur_cmp(op):
    def f(ex, st, info, args):
        a = deref_all(ex, st, args[0]).f[0]
        b = deref_all(ex, st, args[1]).f[0]
        return int_binop(op, a, b)
    return f


B.traits.setdefault(('PartialOrd', 'lt'), []).append((lambda info: type_key(info['selfty']) == 'Duration', _dur_cmp('Lt')))
B.traits.setdefault(('PartialOrd', 'le'), []).append((lambda info: type_key(info['selfty']) == 'Duration', _dur_cmp('Le')))
B.traits.setdefault(('PartialOrd', 'gt'), []).append((lambda info: type_key(info['selfty']) == 'Duration', _dur_cmp('Gt')))
B.traits.setdefault(('PartialOrd', 'ge'), []).append((lambda info: type_key(info['selfty']) == 'Duration', _dur_cmp('Ge')))


# ------------------------------------------------------------------------------------------ tracing
@B.path('LevelFilter::current')
def levelfilter_current(ex, st, info, args):
    return Opaque('LevelFilter', 'OFF')


def _level_le(ex, st, info, args):
    f = deref_all(ex, st, args[1])
    if isinstance(f, Opaque) and f.kind == 'LevelFilter' and f.p == 'OFF':
        return False
    return True


B.traits.setdefault(('PartialOrd', 'le'), []).append((lambda info: type_key(info['selfty']) == 'Level', _level_le))
