"""BTreeMap (concrete structure, symbolic keys), Box/vec! lowering, SystemTime/Duration (clock = symbolic,
non-decreasing), tracing stubs (LevelFilter::current() == OFF: logging is outside every claim)."""
import z3

from .values import *   # noqa
from .execu import ExecError, PanicExc, Call, Choices, Panic, type_key, int_binop
from .builtins import (B, mk_ok, mk_err, mk_some, NONE, concrete_usize, deref_all, eq_values, call_fn, generic_args)

MAX_MAP = 8


# ------------------------------------------------------------------------------------------ BTreeMap
@B.path('BTreeMap::new')
def bmap_new(ex, st, info, args):
    return BMap(())


@B.path('BTreeMap::len')
def bmap_len(ex, st, info, args):
    return Int('usize', len(deref_all(ex, st, args[0]).ents))


@B.path('BTreeMap::is_empty')
def bmap_is_empty(ex, st, info, args):
    return len(deref_all(ex, st, args[0]).ents) == 0


def key_eq(ex, st, a, b, k):
    return eq_values(ex, st, a, b, k)


def find_key(ex, st, mref, key, found, missing):
    """Decide (forking where symbolic) whether key is in the map: found(st, idx) / missing(st)."""
    m = ex.read_ref(st, mref)
    ents = m.ents

    def step(st2, i):
        if i == len(ents):
            return missing(st2)

        def got(st3, r):
            if isinstance(r, bool):
                return found(st3, i) if r else step(st3, i + 1)
            return Choices([(r, lambda s4: found(s4, i)), (z3.Not(r), lambda s4: step(s4, i + 1))])
        return key_eq(ex, st2, ents[i][0], key, got)
    return step(st, 0)


@B.path('BTreeMap::entry')
def bmap_entry(ex, st, info, args):
    mref, key = args
    return find_key(ex, st, mref, key,
                    lambda s2, i: Enum('Entry', 'Occupied', (Struct('OccupiedEntry', (mref, Opaque('idx', i))),)),
                    lambda s2: Enum('Entry', 'Vacant', (Struct('VacantEntry', (mref, key)),)))


@B.path('Entry::or_default', 'btree_map::Entry::or_default')
def entry_or_default(ex, st, info, args):
    e = args[0]
    if e.variant == 'Occupied':
        mref, idx = e.f[0].f
        return Ref(mref.base, mref.projs + (('mapval', idx.p),), True)
    mref, key = e.f[0].f
    gens = info.get('allgenerics') or []
    vty = generic_args(gens[0])[-1] if gens else None
    if vty is None:
        raise ExecError('Entry::or_default without value type')

    def made(st2, v):
        m = ex.read_ref(st2, mref)
        if len(m.ents) >= MAX_MAP:
            raise ExecError('map grew beyond the modelled bound')
        ex.builtins_alloc(st2, 1)
        ex.write_ref(st2, mref, BMap(m.ents + ((key, v),)))
        return Ref(mref.base, mref.projs + (('mapval', len(m.ents)),), True)
    return Call('<%s as Default>::default' % vty.strip(), [], made)


@B.path('Entry::or_insert', 'btree_map::Entry::or_insert')
def entry_or_insert(ex, st, info, args):
    e, v = args
    if e.variant == 'Occupied':
        mref, idx = e.f[0].f
        return Ref(mref.base, mref.projs + (('mapval', idx.p),), True)
    mref, key = e.f[0].f
    m = ex.read_ref(st, mref)
    ex.builtins_alloc(st, 1)
    ex.write_ref(st, mref, BMap(m.ents + ((key, v),)))
    return Ref(mref.base, mref.projs + (('mapval', len(m.ents)),), True)


@B.path('BTreeMap::get', 'BTreeMap::get_mut')
def bmap_get(ex, st, info, args):
    mref, kref = args
    key = deref_all(ex, st, kref)
    return find_key(ex, st, mref, key,
                    lambda s2, i: mk_some(Ref(mref.base, mref.projs + (('mapval', i),), mref.mut)),
                    lambda s2: NONE)


def _bmap_index(ex, st, info, args):
    mref, kref = args
    key = deref_all(ex, st, kref)
    return find_key(ex, st, mref, key,
                    lambda s2, i: Ref(mref.base, mref.projs + (('mapval', i),), mref.mut),
                    lambda s2: Panic('key not found in BTreeMap (Index::index)'))


B.traits.setdefault(('Index', 'index'), []).insert(0, (lambda info: type_key(info['selfty']) == 'BTreeMap', _bmap_index))


@B.path('BTreeMap::contains_key')
def bmap_contains(ex, st, info, args):
    mref, kref = args
    key = deref_all(ex, st, kref)
    return find_key(ex, st, mref, key, lambda s2, i: True, lambda s2: False)


@B.path('BTreeMap::insert')
def bmap_insert(ex, st, info, args):
    mref, key, v = args

    def found(s2, i):
        m = ex.read_ref(s2, mref)
        old = m.ents[i][1]
        ents = list(m.ents)
        ents[i] = (ents[i][0], v)
        ex.write_ref(s2, mref, BMap(ents))
        return mk_some(old)

    def missing(s2):
        m = ex.read_ref(s2, mref)
        ex.builtins_alloc(s2, 1)
        ex.write_ref(s2, mref, BMap(m.ents + ((key, v),)))
        return NONE
    return find_key(ex, st, mref, key, found, missing)


@B.path('BTreeMap::remove')
def bmap_remove(ex, st, info, args):
    mref, kref = args
    key = deref_all(ex, st, kref)

    def found(s2, i):
        m = ex.read_ref(s2, mref)
        old = m.ents[i][1]
        ex.write_ref(s2, mref, BMap(m.ents[:i] + m.ents[i + 1:]))
        return mk_some(old)
    return find_key(ex, st, mref, key, found, lambda s2: NONE)


@B.path('BTreeMap::keys')
def bmap_keys(ex, st, info, args):
    return Struct('MapKeys', (args[0], Int('usize', 0)))


@B.path('BTreeMap::iter', 'BTreeMap::iter_mut')
def bmap_iter(ex, st, info, args):
    return Struct('MapIter', (args[0], Int('usize', 0)))


@B.path('BTreeMap::values', 'BTreeMap::values_mut')
def bmap_values(ex, st, info, args):
    return Struct('MapValues', (args[0], Int('usize', 0)))


def _next_map_values(ex, st, itref, it, k):
    r, i = it.f
    m = ex.read_ref(st, r)
    if i.v >= len(m.ents):
        return k(st, NONE)
    ex.write_ref(st, itref, Struct('MapValues', (r, Int('usize', i.v + 1))))
    return k(st, mk_some(Ref(r.base, r.projs + (('mapval', i.v),), r.mut)))


from . import builtins as _bi      # noqa: E402
_bi.ITER_EXT['MapValues'] = _next_map_values


@B.path('BTreeMap::clear')
def bmap_clear(ex, st, info, args):
    ex.write_ref(st, args[0], BMap(()))
    return UNIT


@B.path('Entry::or_insert_with', 'btree_map::Entry::or_insert_with')
def entry_or_insert_with(ex, st, info, args):
    e, f = args
    if e.variant == 'Occupied':
        mref, idx = e.f[0].f
        return Ref(mref.base, mref.projs + (('mapval', idx.p),), True)
    mref, key = e.f[0].f

    def made(st2, v):
        m = ex.read_ref(st2, mref)
        if len(m.ents) >= MAX_MAP:
            raise ExecError('map grew beyond the modelled bound')
        ex.builtins_alloc(st2, 1)
        ex.write_ref(st2, mref, BMap(m.ents + ((key, v),)))
        return Ref(mref.base, mref.projs + (('mapval', len(m.ents)),), True)
    return call_fn(f, [], made)


@B.path('Entry::and_modify', 'btree_map::Entry::and_modify')
def entry_and_modify(ex, st, info, args):
    e, f = args
    if e.variant != 'Occupied':
        return e
    mref, idx = e.f[0].f
    return call_fn(f, [Ref(mref.base, mref.projs + (('mapval', idx.p),), True)], lambda s2, r: e)


@B.path('Entry::key', 'btree_map::Entry::key')
def entry_key(ex, st, info, args):
    e = deref_all(ex, st, args[0])
    if e.variant == 'Occupied':
        mref, idx = e.f[0].f
        return Ref(('V', ex.read_ref(st, mref).ents[idx.p][0]))
    return Ref(('V', e.f[0].f[1]))


@B.path('OccupiedEntry::get', 'OccupiedEntry::get_mut', 'OccupiedEntry::into_mut')
def occupied_get(ex, st, info, args):
    oe = deref_all(ex, st, args[0])
    mref, idx = oe.f
    return Ref(mref.base, mref.projs + (('mapval', idx.p),), True)


@B.path('VacantEntry::insert')
def vacant_insert(ex, st, info, args):
    ve, v = args
    mref, key = ve.f
    m = ex.read_ref(st, mref)
    ex.builtins_alloc(st, 1)
    ex.write_ref(st, mref, BMap(m.ents + ((key, v),)))
    return Ref(mref.base, mref.projs + (('mapval', len(m.ents)),), True)


@B.path('BTreeMap::retain')
def bmap_retain(ex, st, info, args):
    mref, f = args
    m0 = ex.read_ref(st, mref)
    n = len(m0.ents)

    def step(st2, i, keep):
        if i == n:
            m = ex.read_ref(st2, mref)
            ex.write_ref(st2, mref, BMap([m.ents[j] for j in keep]))
            return UNIT
        m = ex.read_ref(st2, mref)
        kref = Ref(('V', m.ents[i][0]))
        vref = Ref(mref.base, mref.projs + (('mapval', i),), True)

        def got(st3, r):
            if isinstance(r, bool):
                return step(st3, i + 1, keep + ((i,) if r else ()))
            return Choices([(r, lambda s4: step(s4, i + 1, keep + (i,))),
                            (z3.Not(r), lambda s4: step(s4, i + 1, keep))])
        return call_fn(f, [kref, vref], got)
    return step(st, 0, ())


# ------------------------------------------------------------------------------------------ Box / vec![..]
@B.path('Box::new_uninit')
def box_new_uninit(ex, st, info, args):
    cell = st.new_cell(UNINIT)
    return Struct('Box', (Struct('Unique', (Ref(('C', cell), (), True),)),))


@B.path('boxed::box_assume_init_into_vec_unsafe', 'box_assume_init_into_vec_unsafe')
def box_into_vec(ex, st, info, args):
    b = args[0]
    r = b.f[0].f[0]
    v = ex.read_ref(st, r)
    # MaybeUninit { uninit: (), value: ManuallyDrop { value: MaybeDangling(T) } }
    for _ in range(4):
        if isinstance(v, Arr):
            break
        if isinstance(v, (Tup, Struct)):
            v = [x for x in v.f if x is not UNINIT][-1]
    if not isinstance(v, Arr):
        raise ExecError('box_assume_init_into_vec_unsafe: unexpected box content %r' % (v,))
    del st.cells[r.base[1]]
    ex.builtins_alloc(st, len(v.e))
    return Vec(v.e)


@B.path('Box::new')
def box_new(ex, st, info, args):
    return Box(args[0])


# ------------------------------------------------------------------------------------------ time
# SystemTime / Instant / Duration = (seconds: u64, nanoseconds: u32 < 10^9).  No multiplication or division is needed
# for now() / elapsed() / from_secs() / as_secs() / comparisons, which keeps clock arithmetic cheap for the solver.
NS = 1000000000


def t_parts(v):
    return to_bv(v.f[0]), to_bv(v.f[1])


def t_mk(ty, s, n):
    s, n = z3.simplify(s), z3.simplify(n)
    return Struct(ty, (Int('u64', s.as_long() if z3.is_bv_value(s) else s), Int('u32', n.as_long() if z3.is_bv_value(n) else n)))


def t_lt(a, b):
    (as_, an), (bs_, bn) = a, b
    return z3.Or(z3.ULT(as_, bs_), z3.And(as_ == bs_, z3.ULT(an, bn)))


def t_le(a, b):
    return z3.Not(t_lt(b, a))


def t_eq(a, b):
    return z3.And(a[0] == b[0], a[1] == b[1])


def t_sub(a, b):
    """a - b for a >= b"""
    (as_, an), (bs_, bn) = a, b
    borrow = z3.ULT(an, bn)
    return (z3.If(borrow, as_ - bs_ - 1, as_ - bs_), z3.If(borrow, an + z3.BitVecVal(NS, 32) - bn, an - bn))


def t_add(a, b):
    (as_, an), (bs_, bn) = a, b
    n = an + bn                                  # < 2 * 10^9 < 2^32
    carry = z3.UGE(n, z3.BitVecVal(NS, 32))
    s1 = as_ + bs_
    s2 = z3.If(carry, s1 + 1, s1)
    ovf = z3.Or(z3.ULT(s1, as_), z3.ULT(s2, s1))
    return (s2, z3.If(carry, n - z3.BitVecVal(NS, 32), n)), ovf


def clock_reading(k):
    return (z3.BitVec('now!%d_s' % k, 64), z3.BitVec('now!%d_n' % k, 32))


def _now(st):
    k = st.env.get('clock_n', 0)
    t = clock_reading(k)
    prev = st.env.get('clock_last')
    mode = st.env.get('clock_mode', 'monotone')
    st.pc.append(z3.ULT(t[0], z3.BitVecVal(1 << 62, 64)))
    st.pc.append(z3.ULT(t[1], z3.BitVecVal(NS, 32)))
    if prev is not None and mode == 'monotone':
        st.pc.append(t_le(prev, t))
    st.env['clock_n'] = k + 1
    st.env['clock_last'] = t
    return t


def _tv(ex, st, v):
    return deref_all(ex, st, v)


@B.path('SystemTime::now', 'Instant::now')
def systemtime_now(ex, st, info, args):
    ty = 'Instant' if 'Instant' in info['path'] else 'SystemTime'
    return t_mk(ty, *_now(st))


@B.path('SystemTime::elapsed')
def systemtime_elapsed(ex, st, info, args):
    t = t_parts(_tv(ex, st, args[0]))
    now = _now(st)
    ok = t_le(t, now)
    return Choices([(ok, lambda s2: mk_ok(t_mk('Duration', *t_sub(now, t)))),
                    (z3.Not(ok), lambda s2: mk_err(Struct('SystemTimeError', (t_mk('Duration', *t_sub(t, now)),))))])


@B.path('Instant::elapsed')
def instant_elapsed(ex, st, info, args):
    t = t_parts(_tv(ex, st, args[0]))
    now = _now(st)
    ok = t_le(t, now)
    return Choices([(ok, lambda s2: t_mk('Duration', *t_sub(now, t))),
                    (z3.Not(ok), lambda s2: t_mk('Duration', z3.BitVecVal(0, 64), z3.BitVecVal(0, 32)))])


@B.path('SystemTime::duration_since')
def systemtime_duration_since(ex, st, info, args):
    a = t_parts(_tv(ex, st, args[0]))
    b = t_parts(_tv(ex, st, args[1]))
    ok = t_le(b, a)
    return Choices([(ok, lambda s2: mk_ok(t_mk('Duration', *t_sub(a, b)))),
                    (z3.Not(ok), lambda s2: mk_err(Struct('SystemTimeError', (t_mk('Duration', *t_sub(b, a)),))))])


@B.path('Instant::duration_since', 'Instant::saturating_duration_since')
def instant_duration_since(ex, st, info, args):
    a = t_parts(_tv(ex, st, args[0]))
    b = t_parts(_tv(ex, st, args[1]))
    ok = t_le(b, a)
    return Choices([(ok, lambda s2: t_mk('Duration', *t_sub(a, b))),
                    (z3.Not(ok), lambda s2: t_mk('Duration', z3.BitVecVal(0, 64), z3.BitVecVal(0, 32)))])


@B.path('SystemTimeError::duration')
def systemtimeerror_duration(ex, st, info, args):
    return _tv(ex, st, args[0]).f[0]


@B.path('Duration::from_secs')
def duration_from_secs(ex, st, info, args):
    return t_mk('Duration', to_bv(args[0]), z3.BitVecVal(0, 32))


_DIVN = [0]


def _dur_from(name, per_sec):
    def f(ex, st, info, args):
        x = to_bv(args[0])
        x = z3.ZeroExt(64 - x.size(), x) if x.size() < 64 else z3.Extract(63, 0, x)
        d = z3.BitVecVal(per_sec, 64)
        xs = z3.simplify(x)
        if z3.is_bv_value(xs):
            return t_mk('Duration', z3.UDiv(xs, d), z3.Extract(31, 0, z3.URem(xs, d) * z3.BitVecVal(NS // per_sec, 64)))
        # symbolic: quotient and remainder as fresh variables tied by the division lemma x = q*d + r, r < d, no wrap
        # (a 64-bit division by a constant is far harder for the bit-blaster than this multiplication)
        _DIVN[0] += 1
        q = z3.BitVec('div!q%d' % _DIVN[0], 64)
        r = z3.BitVec('div!r%d' % _DIVN[0], 64)
        st.pc.append(z3.And(x == q * d + r, z3.ULT(r, d), z3.ULE(q, z3.BitVecVal(((1 << 64) - 1) // per_sec, 64))))
        # a valid consequence the bit-blaster does not find by itself: if x is y * d without wrap-around, then q = y
        if z3.is_app_of(xs, z3.Z3_OP_BMUL) and xs.num_args() == 2:
            a0, a1 = xs.arg(0), xs.arg(1)
            y = a1 if (z3.is_bv_value(a0) and a0.as_long() == per_sec) else (a0 if (z3.is_bv_value(a1) and a1.as_long() == per_sec) else None)
            if y is not None:
                st.pc.append(z3.Implies(z3.ULE(y, z3.BitVecVal(((1 << 64) - 1) // per_sec, 64)), z3.And(q == y, r == 0)))
        return t_mk('Duration', q, z3.Extract(31, 0, r * z3.BitVecVal(NS // per_sec, 64)))
    B.paths['Duration::' + name] = f


_dur_from('from_millis', 1000)
_dur_from('from_micros', 1000000)
_dur_from('from_nanos', NS)


@B.path('Duration::new')
def duration_new(ex, st, info, args):
    s, n = to_bv(args[0]), to_bv(args[1])
    extra = z3.UDiv(n, z3.BitVecVal(NS, 32))
    s2 = s + z3.ZeroExt(32, extra)
    bad = z3.ULT(s2, s)
    r = t_mk('Duration', s2, z3.URem(n, z3.BitVecVal(NS, 32)))
    bad = z3.simplify(bad)
    if z3.is_false(bad):
        return r
    return Choices([(bad, lambda s3: Panic('overflow in Duration::new')), (z3.Not(bad), lambda s3: r)])


@B.path('Duration::as_secs')
def duration_as_secs(ex, st, info, args):
    return _tv(ex, st, args[0]).f[0]


@B.path('Duration::subsec_nanos')
def duration_subsec_nanos(ex, st, info, args):
    return _tv(ex, st, args[0]).f[1]


def _dur_as(name, per_sec):
    def f(ex, st, info, args):
        s, n = t_parts(_tv(ex, st, args[0]))
        v = z3.ZeroExt(64, s) * z3.BitVecVal(per_sec, 128) + z3.ZeroExt(96, z3.UDiv(n, z3.BitVecVal(NS // per_sec, 32)))
        v = z3.simplify(v)
        return Int('u128', v.as_long() if z3.is_bv_value(v) else v)
    B.paths['Duration::' + name] = f


_dur_as('as_millis', 1000)
_dur_as('as_micros', 1000000)
_dur_as('as_nanos', NS)


@B.path('Duration::subsec_millis')
def duration_subsec_millis(ex, st, info, args):
    n = to_bv(_tv(ex, st, args[0]).f[1])
    return mk_int('u32', z3.UDiv(n, z3.BitVecVal(1000000, 32)))


@B.path('Duration::is_zero')
def duration_is_zero(ex, st, info, args):
    s, n = t_parts(_tv(ex, st, args[0]))
    return mk_bool(z3.simplify(z3.And(s == 0, n == 0)))


@B.path('Duration::as_secs_f64', 'Duration::as_secs_f32')
def duration_as_secs_f(ex, st, info, args):
    raise ExecError('Duration::as_secs_f64 is not modelled')


def _time_add(sign):
    def f(ex, st, info, args):
        t = _tv(ex, st, args[0])
        d = _tv(ex, st, args[1])
        a, b = t_parts(t), t_parts(d)
        if sign > 0:
            r, bad = t_add(a, b)
            msg = 'overflow when adding duration to instant'
        else:
            r, bad = t_sub(a, b), t_lt(a, b)
            msg = 'overflow when subtracting duration from instant'
        return Choices([(bad, lambda s2: Panic(msg)), (z3.Not(bad), lambda s2: t_mk(t.ty, *r))])
    return f


_TIME_TYS = ('SystemTime', 'Duration', 'Instant')
B.traits.setdefault(('Add', 'add'), []).append((lambda info: type_key(info['selfty']) in _TIME_TYS, _time_add(1)))
B.traits.setdefault(('Sub', 'sub'), []).append((lambda info: type_key(info['selfty']) in _TIME_TYS, _time_add(-1)))


def _dur_cmp(op):
    def f(ex, st, info, args):
        a = t_parts(_tv(ex, st, args[0]))
        b = t_parts(_tv(ex, st, args[1]))
        r = {'Lt': lambda: t_lt(a, b), 'Le': lambda: t_le(a, b), 'Gt': lambda: t_lt(b, a), 'Ge': lambda: t_le(b, a),
             'Eq': lambda: t_eq(a, b)}[op]()
        return mk_bool(z3.simplify(r))
    return f


for _k, _op in (('lt', 'Lt'), ('le', 'Le'), ('gt', 'Gt'), ('ge', 'Ge')):
    B.traits.setdefault(('PartialOrd', _k), []).append((lambda info: type_key(info['selfty']) in _TIME_TYS, _dur_cmp(_op)))
B.traits.setdefault(('PartialEq', 'eq'), []).insert(0, (lambda info: type_key(info['selfty']) in _TIME_TYS, _dur_cmp('Eq')))


# ------------------------------------------------------------------------------------------ thread-local state
# `thread_local!` keys are global cells kept in the state's environment (`tls:<key>`); a fresh thread starts with the
# default of the cell's content type.  Check C19 inspects the environment of every leaf: a decode that leaves a
# non-default value behind makes the next decode depend on this one.
def _tls_default(info):
    gens = info.get('allgenerics') or []
    t = gens[0] if gens else ''
    t = t.strip('<>')
    for wrap in ('Cell<', 'RefCell<', 'core::cell::Cell<', 'std::cell::Cell<', 'core::cell::RefCell<', 'std::cell::RefCell<'):
        if t.startswith(wrap):
            t = t[len(wrap):-1]
            break
    tk = type_key(t)
    if tk == 'Vec':
        return Vec(())
    if tk == 'String':
        return RString(())
    if tk == 'Option':
        return NONE
    if t.strip() in INT_TYPES:
        return Int(t.strip(), 0)
    if t.strip() == 'bool':
        return False
    raise ExecError('thread-local of type %s is not modelled' % t)


@B.path('LocalKey::new')
def localkey_new(ex, st, info, args):
    a = args[0]
    name = a.name if isinstance(a, (FnDef, Closure)) else str(getattr(a, 'p', a))
    return Opaque('tls', name)


def _tls_slot(key):
    if not (isinstance(key, Opaque) and key.kind == 'tls'):
        raise ExecError('LocalKey method on %r' % (key,))
    return 'tls:' + str(key.p)


@B.path('LocalKey::take')
def localkey_take(ex, st, info, args):
    slot = _tls_slot(deref_all(ex, st, args[0]))
    d = _tls_default(info)
    v = st.env.get(slot, d)
    st.env[slot] = d
    return v


@B.path('LocalKey::set')
def localkey_set(ex, st, info, args):
    st.env[_tls_slot(deref_all(ex, st, args[0]))] = args[1]
    return UNIT


@B.path('LocalKey::replace')
def localkey_replace(ex, st, info, args):
    slot = _tls_slot(deref_all(ex, st, args[0]))
    v = st.env.get(slot, _tls_default(info))
    st.env[slot] = args[1]
    return v


@B.path('LocalKey::get')
def localkey_get(ex, st, info, args):
    slot = _tls_slot(deref_all(ex, st, args[0]))
    return st.env.get(slot, _tls_default(info))


def tls_residue(env):
    """[(key, value)] of thread-local cells whose content is not the default of its type"""
    out = []
    for k, v in env.items():
        if not str(k).startswith('tls:'):
            continue
        clean = (isinstance(v, Vec) and not v.e) or (isinstance(v, RString) and not v.segs) or \
                (isinstance(v, Enum) and v.variant == 'None') or (isinstance(v, Int) and v.concrete and v.v == 0) or v is False
        if not clean:
            out.append((k, v))
    return out


# ------------------------------------------------------------------------------------------ tracing
@B.path('LevelFilter::current')
def levelfilter_current(ex, st, info, args):
    return Opaque('LevelFilter', 'OFF')


def _level_le(ex, st, info, args):
    f = deref_all(ex, st, args[1])
    if isinstance(f, Opaque) and f.kind == 'LevelFilter' and f.p == 'OFF':
        return False
    return True


B.traits.setdefault(('PartialOrd', 'le'), []).append((lambda info: type_key(info['selfty']) == 'Level', _level_le))
