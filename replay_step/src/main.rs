//! Native replay of one tracker step (checks C01, C12-C15, C20): the pre-state, the frame and the receiver
//! position come from a solver model, serialised by /verif/checks/step_replay.py in serde's JSON format
//! (both crates implement Deserialize under their `serde` feature, so no source hook is needed).
//!
//! usage: replay_step <file.json>     prints one JSON object on stdout
use std::panic;

use adsb_deku::{Frame, ICAO};
use rsadsb_common::Airplanes;
use serde::Deserialize;
use serde_json::json;

#[derive(Deserialize)]
struct Step {
    op: String,
    pre: Airplanes,
    #[serde(default)]
    frame: Option<Frame>,
    #[serde(default)]
    recv: (f64, f64),
    #[serde(default)]
    max_range: f64,
    #[serde(default)]
    filter_time: u64,
    #[serde(default)]
    icao: Option<[u8; 3]>,
}

fn main() {
    let path = std::env::args().nth(1).expect("file");
    if path == "--dump" {
        // format discovery / self-test: decode the given hex frames, feed them to a tracker, print both as JSON
        let mut planes = Airplanes::new();
        for h in std::env::args().skip(2) {
            let bytes: Vec<u8> = (0..h.len() / 2).map(|i| u8::from_str_radix(&h[2 * i..2 * i + 2], 16).unwrap()).collect();
            let f = Frame::from_bytes(&bytes).unwrap();
            println!("{}", serde_json::to_string(&f).unwrap());
            planes.action(f, (52.0, 4.0), 500.0);
        }
        println!("{}", serde_json::to_string(&planes).unwrap());
        return;
    }
    let text = std::fs::read_to_string(path).expect("read");
    let step: Step = match serde_json::from_str(&text) {
        Ok(s) => s,
        Err(e) => {
            println!("{}", json!({"error": format!("input does not deserialize: {e}")}));
            return;
        }
    };
    panic::set_hook(Box::new(|_| {}));
    let Step { op, pre, frame, recv, max_range, filter_time, icao } = step;
    let mut planes = pre;
    let res = panic::catch_unwind(panic::AssertUnwindSafe(|| match op.as_str() {
        "action" => {
            let added = planes.action(frame.expect("frame"), recv, max_range);
            json!({"added": format!("{added:?}")})
        }
        "prune" => {
            planes.prune(filter_time);
            json!({})
        }
        "details" => {
            let d = planes.aircraft_details(ICAO(icao.expect("icao")));
            json!({"details": d.map(|d| json!({"position": [d.position.latitude, d.position.longitude], "altitude": d.altitude,
                "kilo_distance": d.kilo_distance, "heading": d.heading, "track_len": d.track.map(|t| t.len())}))})
        }
        "all_position" => {
            let v: Vec<_> = planes.all_position().into_iter().map(|(k, p)| json!([k.to_string(), p.latitude, p.longitude])).collect();
            json!({"all_position": v})
        }
        _ => json!({"error": "unknown op"}),
    }));
    match res {
        Ok(mut v) => {
            v["panic"] = json!(false);
            v["post"] = serde_json::to_value(&planes).unwrap_or(json!(null));
            println!("{v}");
        }
        Err(_) => println!("{}", json!({"panic": true})),
    }
}
